"""
C06 -- routers deliver each packet once to exactly the addressed stations.
Seeded random tree internetworks (2..8 networks, routers with 2..4 ports,
1..3 stations per network), every (source, kind, destination) combination,
cold then warm caches, bursts, per-frame seeded delays so that discovery and
data frames overtake each other; small cyclic layouts with pre-loaded caches
for the termination clause.  Population-model oracle + independent NPDU wire
monitor.
"""

import copy

from .. import env, wire
from ..env import clock, tm, errlog
from ..world import World, H, U, SimNode, addr_str
from ..driver import Agg
from ..txngen import rng_for
from ..stacks import SimDevice, VENDOR

import bacpypes.core as core
from bacpypes.comm import bind, Client
from bacpypes.pdu import Address, LocalBroadcast, LocalStation, RemoteStation, RemoteBroadcast, GlobalBroadcast, PDU
from bacpypes.app import Application
from bacpypes.appservice import StateMachineAccessPoint, ApplicationServiceAccessPoint
from bacpypes.netservice import NetworkServiceAccessPoint, NetworkServiceElement
from bacpypes.apdu import UnconfirmedPrivateTransferRequest

ID = 'C06'
LEVEL = 'exploration'
BUDGET = {'quick': 55, 'thorough': 780}
SHRINK_LISTS = [('packets',), ('netnum',)]

REPLY_BIT = 0x40000000


class QuietNSE(NetworkServiceElement):
    _startup_disabled = True


class _Sink(Client):
    def confirmation(self, pdu):
        pass


class StationApp(Application):
    _startup_disabled = True

    def __init__(self, world, label, device):
        Application.__init__(self, device)
        self.world = world
        self.label = label
        self.rx = []
        self.replies = True

    def do_UnconfirmedPrivateTransferRequest(self, apdu):
        w = self.world
        tok = apdu.serviceNumber
        src = apdu.pduSource
        seq = w.log('ind', self.label, tok, str(src), str(apdu.pduDestination))
        self.rx.append((seq, tok, src, str(apdu.pduDestination)))
        if not (tok & REPLY_BIT) and self.replies:
            # answer with a unicast to the source address we were shown
            r = UnconfirmedPrivateTransferRequest(vendorID=VENDOR, serviceNumber=tok | REPLY_BIT)
            r.pduDestination = src
            w.log('reply', self.label, tok, str(src))
            self.request(r)

    def send(self, tok, dest):
        r = UnconfirmedPrivateTransferRequest(vendorID=VENDOR, serviceNumber=tok)
        r.pduDestination = dest
        self.world.log('send', self.label, tok, str(dest))
        self.request(r)


class Station:
    def __init__(self, world, label, devid, net, mac, lan, knows_net):
        self.label = label
        self.net = net
        self.mac = mac
        self.address = Address(mac)
        dev = SimDevice(objectName=label, objectIdentifier=('device', devid), vendorIdentifier=VENDOR)
        self.app = StationApp(world, label, dev)
        self.asap = ApplicationServiceAccessPoint()
        self.smap = StateMachineAccessPoint(dev)
        self.smap.deviceInfoCache = self.app.deviceInfoCache
        self.nsap = NetworkServiceAccessPoint()
        self.nse = QuietNSE()
        bind(self.nse, self.nsap)
        bind(self.app, self.asap, self.smap, self.nsap)
        self.node = SimNode(world, label, self.address, lan)
        if knows_net:
            self.nsap.bind(self.node, net, self.address)
        else:
            self.nsap.bind(self.node)


class Router:
    """NetworkServiceAccessPoint with 2..4 adapters (+ NSE).  Optionally the
    router also hosts an application (a controller that routes): the
    application sits on the NSAP's local adapter, which is the LAST port."""

    def __init__(self, world, label, startup):
        self.label = label
        self.world = world
        self.nsap = NetworkServiceAccessPoint()
        self.nse = (NetworkServiceElement if startup else QuietNSE)()
        bind(self.nse, self.nsap)
        self.ports = {}         # net -> (mac, node)
        self.app = None

    def add_port(self, net, mac, lan):
        a = Address(mac)
        node = SimNode(self.world, '%s.%d' % (self.label, net), a, lan)
        self.nsap.bind(node, net, a)
        self.ports[net] = (mac, node)

    def add_app(self, label, devid):
        dev = SimDevice(objectName=label, objectIdentifier=('device', devid), vendorIdentifier=VENDOR)
        self.app = StationApp(self.world, label, dev)
        self.app.replies = False     # receive-only, see DESIGN 12.4
        self.asap = ApplicationServiceAccessPoint()
        self.smap = StateMachineAccessPoint(dev)
        self.smap.deviceInfoCache = self.app.deviceInfoCache
        bind(self.app, self.asap, self.smap, self.nsap)


# ------------------------------------------------------------------ world construction

def build(desc):
    w = World(desc['seed'], faults=desc.get('faults'), frame_cap=desc.get('frame_cap', 40000), tick_cap=400000,
              latency=desc.get('latency', 0.0), jitter=desc.get('jitter', 0.0))
    topo = desc['topo']
    lans = {}
    for net in topo['nets']:
        lans[net] = w.new_network('n%d' % net)
    routers = []
    for i, r in enumerate(topo['routers']):
        R = Router(w, 'R%d' % i, r.get('startup', False))
        for (net, mac) in r['ports']:
            R.add_port(net, mac, lans[net])
        routers.append(R)
    stations = {}
    devid = 2000
    for s in topo['stations']:
        devid += 1
        if s.get('router') is not None:
            R = routers[s['router']]
            R.add_app(s['label'], devid)
            stations[s['label']] = R
            continue
        stations[s['label']] = Station(w, s['label'], devid, s['net'], s['mac'], lans[s['net']], s.get('knows_net', True))
    raws = {}
    for r in topo.get('raws', []):
        node = SimNode(w, r['label'], Address(r['mac']), lans[r['net']])
        sink = _Sink()
        bind(sink, node)
        node._sink = sink
        raws[r['label']] = node
    # pre-loaded caches (cyclic layouts)
    for pl in topo.get('preload', []):
        routers[pl['router']].nsap.update_router_references(pl['snet'], Address(pl['via']), pl['dnets'])
    for pl in topo.get('preload_stations', []):
        stations[pl['station']].nsap.update_router_references(pl['snet'], Address(pl['via']), pl['dnets'])
    return w, lans, routers, stations, raws


class _StView:
    def __init__(self, d):
        self.net = d['net']
        self.address = Address(d['mac'])


def dest_of(stations, p, topo=None):
    s = stations[p['src']]
    k = p['kind']
    by = {x['label']: x for x in topo['stations']}
    s = _StView(by[p['src']])
    if k == 'uni':
        d = _StView(by[p['dst']])
        if d.net == s.net:
            return LocalStation(d.address.addrAddr)
        return RemoteStation(d.net, d.address.addrAddr)
    if k == 'rbc':
        return RemoteBroadcast(p['dnet'])
    if k == 'gbc':
        return GlobalBroadcast()
    if k == 'lbc':
        return LocalBroadcast()
    raise ValueError(k)


def expected_recipients(topo, p):
    sts = topo['stations']
    src = next(s for s in sts if s['label'] == p['src']) if p['kind'] != 'raw' else None
    k = p['kind']
    if k == 'uni':
        return {p['dst']}
    if k == 'rbc':
        return {s['label'] for s in sts if s['net'] == p['dnet'] and s['label'] != p['src']}
    if k == 'gbc':
        return {s['label'] for s in sts if s['label'] != p['src']}
    if k == 'lbc':
        return {s['label'] for s in sts if s['net'] == src['net'] and s['label'] != p['src']}
    if k == 'raw':
        # routed frame injected with a given hop count: delivered iff every router on the path sees hop >= 1
        if p['hop'] >= p['path_len'] and p['path_len'] >= 1:
            return {p['dst']}
        return set()
    raise ValueError(k)


def execute(desc):
    w, lans, routers, stations, raws = build(desc)
    topo = desc['topo']
    w.log('seed', desc['seed'])
    w.run(until=5.0)           # router start-up announcements settle
    per_packet_frames = {}
    result = 'quiescent'
    for gi, group in enumerate(desc['packets']):
        f0 = w.frames
        for p in (group if isinstance(group, list) else [group]):
            if p['kind'] == 'raw':
                node = raws[p['raw']]
                d = next(s for s in topo['stations'] if s['label'] == p['dst'])
                apdu = wire.unconf_req(4, wire.ctx_uint(0, VENDOR) + wire.ctx_uint(1, p['tok'] | REPLY_BIT))
                npdu = wire.encode_npdu(apdu, dnet=d['net'], dadr=bytes([d['mac']]), hop=p['hop'])
                w.log('rawsend', p['raw'], p['tok'], p['hop'])
                node.indication(PDU(npdu, destination=Address(p['via'])))
            else:
                stations[p['src']].app.send(p['tok'], dest_of(stations, p, topo))
        res = w.run(until=w.now + desc.get('settle', 60.0))
        if res == 'budget':
            result = 'budget'
            break
        n = w.frames - f0
        # network-number traffic between two packets: a station asks What-Is-Network-Number, a router announces
        # Network-Number-Is on its ports; stations that did not know their network number learn it here
        for act in desc.get('netnum', []):
            if act['after'] != gi:
                continue
            if act['kind'] == 'winn':
                st = stations[act['src']]
                w.log('winn', act['src'])
                st.nse.what_is_network_number(list(st.nsap.adapters.values())[0])
            else:
                w.log('nni', act['router'])
                routers[act['router']].nse.network_number_is()
            w.probe('netnum_' + act['kind'])
            if w.run(until=w.now + 5.0) == 'budget':
                result = 'budget'
        for p in (group if isinstance(group, list) else [group]):
            per_packet_frames[p['tok']] = n
    errors = list(errlog.records)
    tm.tasks = []
    core.deferredFns = []
    return {'w': w, 'routers': routers, 'stations': stations, 'result': result, 'frames_per_group': per_packet_frames, 'errors': errors}


# ------------------------------------------------------------------ oracle

def check(desc, ex):
    out = []
    w = ex['w']
    topo = desc['topo']
    cyclic = topo.get('cyclic', False)
    seen = set()

    def viol(clause, what, detail, **sig):
        if (clause, what) in seen:
            return
        seen.add((clause, what))
        s = {'kind': what, 'knows_net': topo.get('knows_net'), 'cyclic': cyclic}
        s.update(sig)
        out.append({'clause': clause, 'detail': detail, 'sigkey': what, 'sig': s})

    if ex['result'] == 'budget':
        viol('C06.d', 'no-termination', 'forwarding did not terminate: frame/tick budget (%s) exceeded after %d frames' % (w.budget_hit, w.frames))
        return out
    nrouters = len(topo['routers'])
    flat = []
    for g in desc['packets']:
        flat += g if isinstance(g, list) else [g]
    st_by_label = {s['label']: s for s in topo['stations']}
    got = {}        # tok -> {label: [(seq, src, dst)]}
    for label, st in ex['stations'].items():
        for (seq, tok, src, dst) in st.app.rx:
            got.setdefault(tok, {}).setdefault(label, []).append((seq, src, dst))
    for p in flat:
        tok = p['tok']
        if cyclic:
            n = ex['frames_per_group'].get(tok, 0)
            if n > 256 * max(1, nrouters) * len([q for q in flat if ex['frames_per_group'].get(q['tok']) == n and True][:1]) * 2:
                viol('C06.d', 'too-many-frames', 'packet %r caused %d frames in a cyclic layout of %d routers' % (p, n, nrouters))
            continue
        exp = expected_recipients(topo, p)
        g = got.get(tok | REPLY_BIT if p['kind'] == 'raw' else tok, {})
        missing = exp - set(g)
        extra = set(g) - exp
        dups = {l: len(v) for l, v in g.items() if len(v) > 1}
        if missing or extra or dups:
            what = 'missing' if missing else ('extra' if extra else 'duplicate')
            viol('C06.a', what + ':' + p['kind'], 'packet %r: expected recipients %r, got %r (missing %r, unexpected %r, duplicates %r)'
                 % ({k: v for k, v in p.items()}, sorted(exp), {l: len(v) for l, v in sorted(g.items())}, sorted(missing), sorted(extra), dups),
                 pkind=p['kind'], how=what)
            continue
        if p['kind'] == 'raw':
            continue
        # source address shown to each recipient + reply routability
        src = st_by_label[p['src']]
        for label, lst in g.items():
            shown = lst[0][1]
            dstn = st_by_label[label]
            ok = bytes(shown.addrAddr) == bytes([src['mac']])
            if shown.addrType == Address.remoteStationAddr:
                ok = ok and shown.addrNet == src['net']
            elif shown.addrType == Address.localStationAddr:
                ok = ok and dstn['net'] == src['net']
            else:
                ok = False
            if not ok:
                viol('C06.b', 'shown-source', 'packet %r: recipient %s (net %d) was shown source %s, originator is station %d on net %d'
                     % (p, label, dstn['net'], shown, src['mac'], src['net']), pkind=p['kind'])
        # replies: one per recipient, each exactly once at the originator, nobody else
        rg = got.get(tok | REPLY_BIT, {})
        others = set(rg) - {p['src']}
        nrep = len(rg.get(p['src'], []))
        nexp = len([l for l in exp if st_by_label[l].get('router') is None])
        if others or nrep != nexp:
            viol('C06.b', 'reply', 'packet %r: %d recipients replied to the source address they were shown; originator received %d replies, other stations received %r'
                 % (p, len(exp), nrep, {l: len(v) for l, v in rg.items() if l != p['src']}), pkind=p['kind'])
    if not cyclic:
        out += check_wire(desc, ex, viol)
    return out


def check_wire(desc, ex, viol):
    """C06.c: per-router forwarding discipline, by the harness' own NPDU decoder."""
    w = ex['w']
    topo = desc['topo']
    out = []
    port_of = {}        # node label -> (router index, net)
    for i, r in enumerate(topo['routers']):
        for (net, mac) in r['ports']:
            port_of['R%d.%d' % (i, net)] = (i, net, mac)
    # frames received by each router port, keyed by apdu octets
    rx = {}
    for f in w.rx:
        if f['node'] in port_of:
            n = wire.decode_npdu(f['octets'])
            if n is None or n['netmsg']:
                continue
            i, net, mac = port_of[f['node']]
            rx.setdefault((i, n['apdu']), []).append((f['seq'], net, n, f['src']))
    for f in w.tx:
        if f['node'] not in port_of:
            continue
        n = wire.decode_npdu(f['octets'])
        if n is None or n['netmsg']:
            continue
        i, qnet, qmac = port_of[f['node']]
        cands = [x for x in rx.get((i, n['apdu']), []) if x[0] < f['seq']]
        if not cands and any(st.get('router') == i for st in topo['stations']):
            continue        # originated by the application this router hosts (its replies)
        if not cands:
            viol('C06.c', 'forward-without-receive', 'router R%d emitted an application frame on net %d that it never received' % (i, qnet))
            continue
        other = [x for x in cands if x[1] != qnet]
        if not other:
            viol('C06.c', 'forwarded-back', 'router R%d emitted a frame on net %d, the only network it received it from' % (i, qnet))
            continue
        # the received copy it corresponds to: latest earlier one from another port
        seq_in, pnet, nin, src_mac = other[-1]
        if nin['hop'] is not None and nin['hop'] == 0 and all(x[2]['hop'] == 0 for x in other):
            viol('C06.c', 'forwarded-hop-zero', 'router R%d forwarded a frame onto net %d that it received with hop count 0' % (i, qnet))
        if n['dnet'] is not None:
            hops_in = [x[2]['hop'] for x in other if x[2]['hop'] is not None]
            if hops_in and n['hop'] not in [h - 1 for h in hops_in]:
                viol('C06.c', 'hop-count', 'router R%d received a frame with hop count %r and forwarded it with hop count %r' % (i, hops_in, n['hop']))
        # source: the received SADR, or (net of arrival port, MAC of the sender)
        ok_src = False
        for (sq, pn, ni, smac) in other:
            if ni['snet'] is not None:
                if (n['snet'], n['sadr']) == (ni['snet'], ni['sadr']):
                    ok_src = True
            else:
                try:
                    m = bytes([int(smac)])
                except ValueError:
                    m = None
                if n['snet'] == pn and n['sadr'] == m:
                    ok_src = True
        if not ok_src:
            viol('C06.c', 'sadr', 'router R%d forwarded a frame onto net %d with source (%r, %r) that matches neither the received SADR nor the arrival network and sender'
                 % (i, qnet, n['snet'], n['sadr'].hex() if n['sadr'] else None))
    return out


def execute_desc(desc):
    ex = execute(desc)
    v = check(desc, ex)
    w = ex['w']
    return {'violations': v, 'digest': w.digest(), 'events_tail': [list(map(str, e)) for e in w.events[-40:] if e[2] != 'rx'],
            'probes': dict(w.probes), 'sim': w.sim_seconds, 'frames': w.frames, 'errors': ex['errors'],
            'faults': dict(w.plan.counts)}


# ------------------------------------------------------------------ generators

def gen_tree(rng):
    nnets = rng.randint(2, 8)
    numbers = rng.sample(range(1, 200), nnets) if rng.random() < 0.7 else list(range(1, nnets + 1))
    order = list(numbers)
    rng.shuffle(order)
    attached = [order[0]]
    pending = order[1:]
    nextmac = {}

    def newmac(n):
        nextmac[n] = nextmac.get(n, 0) + 1
        return nextmac[n]
    routers = []
    startup = rng.random() < 0.5
    while pending:
        parent = rng.choice(attached)
        k = min(len(pending), rng.randint(1, 3))
        kids = [pending.pop() for _ in range(k)]
        ports = [(n, newmac(n)) for n in [parent] + kids]
        routers.append({'ports': ports, 'startup': startup if rng.random() < 0.8 else not startup})
        attached += kids
    knows = rng.random() < 0.5
    stations = []
    for i, r in enumerate(routers):
        if rng.random() < 0.35:
            net, mac = r['ports'][-1]
            stations.append({'label': 'r%d_app' % i, 'net': net, 'mac': mac, 'knows_net': True, 'router': i})
    for n in numbers:
        for _ in range(rng.randint(1, 3)):
            stations.append({'label': 's%d_%d' % (n, nextmac.get(n, 0) + 1), 'net': n, 'mac': newmac(n), 'knows_net': knows})
    return {'nets': numbers, 'routers': routers, 'stations': stations, 'knows_net': knows}


def path_routers(topo, a, b):
    """number of routers on the (unique) path between networks a and b"""
    adj = {}
    for r in topo['routers']:
        nets = [p[0] for p in r['ports']]
        for x in nets:
            for y in nets:
                if x != y:
                    adj.setdefault(x, set()).add(y)
    dist = {a: 0}
    q = [a]
    while q:
        x = q.pop(0)
        for y in adj.get(x, ()):
            if y not in dist:
                dist[y] = dist[x] + 1
                q.append(y)
    return dist.get(b)


def first_hop(topo, a, b):
    """(mac of the router port on net a that leads toward net b)"""
    for r in topo['routers']:
        nets = [p[0] for p in r['ports']]
        if a in nets:
            for n in nets:
                if n != a and (n == b or path_routers_excluding(topo, n, b, r) is not None):
                    return next(p[1] for p in r['ports'] if p[0] == a)
    return None


def path_routers_excluding(topo, a, b, skip):
    adj = {}
    for r in topo['routers']:
        if r is skip:
            continue
        nets = [p[0] for p in r['ports']]
        for x in nets:
            for y in nets:
                if x != y:
                    adj.setdefault(x, set()).add(y)
    dist = {a: 0}
    q = [a]
    while q:
        x = q.pop(0)
        for y in adj.get(x, ()):
            if y not in dist:
                dist[y] = dist[x] + 1
                q.append(y)
    return dist.get(b)


def gen_desc(seed, idx):
    rng = rng_for(seed, 'C06', idx)
    topo = gen_tree(rng)
    sts = topo['stations']
    cases = []
    for s in sts:
        if s.get('router') is not None:
            continue        # router-hosted applications are receivers only (see DESIGN 12.4)
        for d in sts:
            if d is not s:
                cases.append({'kind': 'uni', 'src': s['label'], 'dst': d['label']})
        for n in topo['nets']:
            if n != s['net'] or s['knows_net']:
                cases.append({'kind': 'rbc', 'src': s['label'], 'dnet': n})
        cases.append({'kind': 'gbc', 'src': s['label']})
        cases.append({'kind': 'lbc', 'src': s['label']})
    rng.shuffle(cases)
    npk = rng.randint(5, 40)
    chosen = cases[:npk]
    # raw routed frames with small hop counts
    if len(topo['nets']) >= 2 and rng.random() < 0.5:
        topo['raws'] = []
        for j in range(rng.randint(1, 3)):
            a = rng.choice(topo['nets'])
            d = rng.choice([s for s in sts if s['net'] != a and s.get('router') is None] or sts)
            if d['net'] == a or d.get('router') is not None:
                continue
            via = first_hop(topo, a, d['net'])
            if via is None:
                continue
            label = 'raw%d' % j
            topo['raws'].append({'label': label, 'net': a, 'mac': 200 + j})
            # routers drop (and start discovery for) transit frames they have no path for, so warm the
            # path first with a station-originated unicast along the same route
            warmer = rng.choice([s for s in sts if s['net'] == a and s.get('router') is None])
            chosen.append({'kind': 'uni', 'src': warmer['label'], 'dst': d['label']})
            chosen.append({'kind': 'raw', 'raw': label, 'via': via, 'dst': d['label'], 'hop': rng.choice([0, 0, 1, 2, 3, 255]),
                           'path_len': path_routers(topo, a, d['net'])})
    # warm phase: repeat some packets after everything was discovered; bursts
    nonraw = [c for c in chosen if c['kind'] != 'raw']
    warm = [dict(c) for c in rng.sample(nonraw, min(len(nonraw), rng.randint(0, 10)))]
    packets = []
    tok = 0
    i = 0
    allp = chosen + warm
    while i < len(allp):
        if rng.random() < 0.25 and all(p['kind'] != 'raw' for p in allp[max(0, i - 1):i + 4]):
            k = rng.randint(2, 4)
            grp = []
            for p in allp[i:i + k]:
                tok += 1
                q = dict(p)
                q['tok'] = tok
                grp.append(q)
            packets.append(grp)
            i += k
        else:
            tok += 1
            q = dict(allp[i])
            q['tok'] = tok
            packets.append(q)
            i += 1
    netnum = []
    if rng.random() < (0.5 if not topo['knows_net'] else 0.15):
        plain = [s_['label'] for s_ in sts if s_.get('router') is None]
        for k in range(rng.randint(1, 3)):
            if rng.random() < 0.5:
                netnum.append({'after': rng.randrange(len(packets)), 'kind': 'winn', 'src': rng.choice(plain)})
            else:
                netnum.append({'after': rng.randrange(len(packets)), 'kind': 'nni', 'router': rng.randrange(len(topo['routers']))})
    return {'prop': 'C06', 'seed': H(seed, 'C06run', idx) & 0x7fffffff, 'topo': topo, 'packets': packets, 'netnum': netnum,
            'latency': rng.choice([0.0, 0.0, 0.001]), 'jitter': rng.choice([0.0, 0.0, 0.01, 0.5, 2.0]), 'settle': 60.0}


def gen_cyclic(seed, idx):
    rng = rng_for(seed, 'C06c', idx)
    shape = rng.choice(['ring', 'ring', 'parallel'])
    if shape == 'parallel':
        nets = [1, 2]
        routers = [{'ports': [(1, 1), (2, 1)]}, {'ports': [(1, 2), (2, 2)]}]
    else:
        n = rng.randint(3, 4)
        nets = list(range(1, n + 1))
        routers = [{'ports': [(nets[i], 1), (nets[(i + 1) % n], 2)]} for i in range(n)]
    stations = [{'label': 's%d' % n_, 'net': n_, 'mac': 10, 'knows_net': True} for n_ in nets]
    topo = {'nets': nets, 'routers': routers, 'stations': stations, 'cyclic': True, 'knows_net': True, 'preload': [], 'preload_stations': []}
    unreachable = 99
    # pre-load every router: each other network via a neighbour; plus (sometimes) a circular route to an unreachable network
    for i, r in enumerate(routers):
        own = [p[0] for p in r['ports']]
        for dn in nets + [unreachable]:
            if dn in own:
                continue
            snet = rng.choice(own)
            # a neighbour router port on snet that is not ours
            neigh = [p[1] for j, rr in enumerate(routers) if j != i for p in rr['ports'] if p[0] == snet]
            if not neigh:
                continue
            topo['preload'].append({'router': i, 'snet': snet, 'via': rng.choice(neigh), 'dnets': [dn]})
    for s in stations:
        for dn in nets + [unreachable]:
            if dn == s['net']:
                continue
            ports = [p[1] for rr in routers for p in rr['ports'] if p[0] == s['net']]
            topo['preload_stations'].append({'station': s['label'], 'snet': s['net'], 'via': rng.choice(ports), 'dnets': [dn]})
    packets = []
    tok = 0
    for _ in range(rng.randint(2, 6)):
        tok += 1
        s = rng.choice(stations)
        kind = rng.choice(['uni', 'rbc', 'gbc', 'unreach', 'unreach-bc'])
        if kind == 'uni':
            d = rng.choice([x for x in stations if x is not s])
            packets.append({'kind': 'uni', 'src': s['label'], 'dst': d['label'], 'tok': tok})
        elif kind == 'rbc':
            packets.append({'kind': 'rbc', 'src': s['label'], 'dnet': rng.choice([n_ for n_ in nets if n_ != s['net']]), 'tok': tok})
        elif kind == 'gbc':
            packets.append({'kind': 'gbc', 'src': s['label'], 'tok': tok})
        elif kind == 'unreach':
            packets.append({'kind': 'rbc', 'src': s['label'], 'dnet': unreachable, 'tok': tok})
        else:
            packets.append({'kind': 'rbc', 'src': s['label'], 'dnet': unreachable, 'tok': tok})
    return {'prop': 'C06', 'seed': H(seed, 'C06crun', idx) & 0x7fffffff, 'topo': topo, 'packets': packets,
            'latency': rng.choice([0.0, 0.001]), 'jitter': rng.choice([0.0, 0.01]), 'settle': 600.0, 'frame_cap': 30000}


def gen_lossy(seed, idx):
    """at-most-once mode: drops enabled, only 'never to a wrong station, never twice' is checked"""
    d = gen_desc(seed, 7000000 + idx)
    rng = rng_for(seed, 'C06l', idx)
    d['faults'] = {'mode': 'hashed', 'rates': {'drop': rng.choice([0.02, 0.1, 0.3])}, 'salt': rng.randrange(1 << 30)}
    d['lossy'] = True
    return d


def check_lossy(desc, ex):
    out = []
    topo = desc['topo']
    flat = []
    for g in desc['packets']:
        flat += g if isinstance(g, list) else [g]
    got = {}
    for label, st in ex['stations'].items():
        for (seq, tok, src, dst) in st.app.rx:
            got.setdefault(tok, {}).setdefault(label, []).append(seq)
    if ex['result'] == 'budget':
        return [{'clause': 'C06.d', 'detail': 'forwarding did not terminate under loss', 'sigkey': 'no-termination', 'sig': {'kind': 'no-termination', 'lossy': True}}]
    for p in flat:
        exp = expected_recipients(topo, p)
        g = got.get(p['tok'] | REPLY_BIT if p['kind'] == 'raw' else p['tok'], {})
        extra = set(g) - exp
        dups = {l: len(v) for l, v in g.items() if len(v) > 1}
        if extra or dups:
            out.append({'clause': 'C06.a', 'detail': 'under loss, packet %r reached unexpected stations %r / duplicates %r' % (p, sorted(extra), dups),
                        'sigkey': 'lossy-extra' if extra else 'lossy-duplicate', 'sig': {'kind': 'lossy', 'how': 'extra' if extra else 'duplicate', 'pkind': p['kind']}})
            break
    return out


def run_one(agg, d):
    if d.get('lossy'):
        ex = execute(d)
        v = check_lossy(d, ex)
        w = ex['w']
        r = {'violations': v, 'probes': dict(w.probes), 'sim': w.sim_seconds, 'frames': w.frames, 'errors': ex['errors'], 'faults': dict(w.plan.counts),
             'events_tail': []}
    else:
        r = execute_desc(d)
    agg.evals += 1
    agg.sim_seconds += r['sim']
    for k, v in r['faults'].items():
        agg.stat('fault.' + k, v)
    for k, v in r['probes'].items():
        agg.stat('probe.' + k, v)
    for e in r['errors']:
        agg.stat('looperr.%s:%s:%s' % (e[1], e[2], e[3]))
    topo = d['topo']
    agg.stat('probe.frames', r['frames'])
    agg.stat('probe.cyclic' if topo.get('cyclic') else ('probe.tree_knows_net' if topo.get('knows_net') else 'probe.tree_unknown_net'))
    flat = []
    for g in d['packets']:
        flat += g if isinstance(g, list) else [g]
        if isinstance(g, list):
            agg.stat('probe.burst')
    for p in flat:
        agg.stat('probe.pkt_' + p['kind'])
    if d.get('jitter'):
        agg.stat('fault.delay_reorder_runs')
    agg.sigs.add(H(tuple(topo['nets']), tuple(tuple(map(tuple, r_['ports'])) for r_ in topo['routers']), len(topo['stations']),
                   tuple((p['kind'], p.get('src'), p.get('dst'), p.get('dnet')) for p in flat), d.get('jitter'), bool(d.get('lossy'))))
    if len(agg.samples) < 2 and len(flat) < 12:
        agg.samples.append({'desc': d, 'frames': r['frames']})
    for v in r['violations']:
        agg.violation(v, d)


def run_unit(unit):
    agg = Agg()
    gen = {'tree': gen_desc, 'cyclic': gen_cyclic, 'lossy': gen_lossy}[unit['kind']]
    for idx in range(unit['start'], unit['start'] + unit['count']):
        run_one(agg, gen(unit['seed'], idx))
    return agg.result()


def units(tier, seed):
    us = []
    n = 6000 if tier == 'thorough' else 700
    for k in range(n):
        us.append({'kind': 'tree', 'seed': seed, 'start': k * 10, 'count': 10})
        if k % 4 == 0:
            us.append({'kind': 'cyclic', 'seed': seed, 'start': k * 10, 'count': 10})
        if k % 4 == 1:
            us.append({'kind': 'lossy', 'seed': seed, 'start': k * 10, 'count': 10})
    return us


def selftest_descs(tier, seed):
    return [gen_desc(seed, 8000003), gen_desc(seed, 8000004), gen_cyclic(seed, 8000003)]


def execute_desc_any(desc):
    return execute_desc(desc)


def evidence(tier, seed, total):
    return {
        'level': LEVEL,
        'coverage': {
            'rule': '[addition: What-Is-Network-Number requests from stations and Network-Number-Is announcements from routers interleaved with the packets, so stations without a configured network number learn it in mid-run] Each world is a seeded random TREE internetwork (2-8 BACnet networks with random network numbers, routers of 2-4 ports built from the real '
                    'NetworkServiceAccessPoint/NetworkServiceElement, 1-3 complete station stacks per network, all stations either knowing or not knowing their '
                    'network number, routers announcing themselves at start or staying silent) carrying 5-50 packets drawn from every (source, kind in {unicast, '
                    'remote broadcast, global broadcast, local broadcast}, destination) combination, cold caches first then repeats on warm caches, 25% sent as bursts '
                    'in one instant, plus raw routed frames with hop counts 0,1,2,3,255; every recipient answers with a unicast to the source address it was shown. '
                    'All frames get seeded per-frame delays (jitter 0-2 s) so discovery and data frames overtake each other. Every 4th unit uses small CYCLIC layouts '
                    '(ring of 3-4, two parallel routers) with pre-loaded caches incl. circular routes to an unreachable network (termination clause only), every 4th '
                    'unit adds frame loss and checks only "never twice, never to a wrong station". Distinct = distinct (topology, packet list, jitter, mode) tuples; '
                    'every world is non-trivial (>= 5 packets routed).',
            'components_real': ['netservice.NetworkServiceAccessPoint (routing, pending_nets)', 'netservice.NetworkServiceElement (Who-Is/I-Am-Router handling)', 'netservice.RouterInfoCache',
                                'npdu/apdu codecs', 'app.Application + ASAP + SMAP on every station', 'vlan.Network/Node delivery', 'task.TaskManager', 'core.run_once'],
            'components_stub': ['wall clock', 'LAN fabric delay/loss layer', 'raw nodes injecting harness-encoded routed frames'],
        },
        'assumptions': ['population model of recipients and the harness NPDU decoder are correct', 'exactly-once clauses are evaluated on loss-free fabrics (loss-free by definition of the clause)',
                        'path discovery on CYCLIC layouts with cold caches is out of scope (I-Am-Router-To-Network re-broadcast carries no hop count; BACnet forbids cycles): cyclic layouts run with pre-loaded caches only',
                        'a remote broadcast to the sender\'s own network is generated only when the sender knows its network number'],
    }
