"""
C12 -- what is sent respects what the peer said it can accept.  Configuration
swarm x boundary payload lengths; wire monitor with the harness' own decoder,
capabilities taken from what was actually announced on the wire (request
header bits, I-Am delivered earlier).
"""

import copy

from .. import txn, txngen, wire
from ..driver import Agg
from ..stacks import TOK_BASE
from ..txngen import rng_for, stack_cfg, payload_len_for_service_len
from ..world import H
from . import c04

ID = 'C12'
LEVEL = 'exploration'
BUDGET = {'quick': 50, 'thorough': 700}
SHRINK_LISTS = [('faults', 'list'), ('ops',)]

SEG_RX = ('segmentedReceive', 'segmentedBoth')
SEG_TX = ('segmentedTransmit', 'segmentedBoth')


def check(h):
    out = []
    w = h.w
    if h.result == 'budget':
        out.append({'clause': 'C12.d', 'detail': 'run exceeded its frame/tick budget (%s)' % w.budget_hit,
                    'sigkey': 'budget', 'sig': {'kind': 'budget'}})
        return out
    addr_of = {name: str(st.address) for name, st in h.stacks.items()}
    name_of = {v: k for k, v in addr_of.items()}
    # I-Am knowledge: (receiver stack, announcer addr) -> (seq, maxapdu, seg)
    # an entry (seq, None, None) voids the knowledge: the instance that had announced itself from this address announced
    # itself from another address since (it moved away; whoever lives there now has not said anything yet)
    iam = {}
    cur = {}        # (receiver, addr) -> instance whose announcement is in force
    where = {}      # (receiver, instance) -> addr it announced itself from last
    for e in w.events:
        if e[2] == 'iam':
            node, addr, inst = e[3], e[4], e[5]
            old = where.get((node, inst))
            if old is not None and old != addr and cur.get((node, old)) == inst:
                iam.setdefault((node, old), []).append((e[0], None, None))
                cur[(node, old)] = None
                w.probe('c12-knowledge-voided-by-move')
            iam.setdefault((node, addr), []).append((e[0], e[6], e[7]))
            cur[(node, addr)] = inst
            where[(node, inst)] = addr
    # requests delivered to a node: (node, src, invoke) -> list of (seq, header)
    delivered_req = {}
    sa_rx = {}
    first_seg_rx = {}      # (node, src, invoke, dir) -> proposed window of the first segment delivered
    for f in w.rx:
        n, a = txn.decode_lan_frame(f['octets'])
        if a is None:
            continue
        if a['type'] == wire.T_CONF and (not a['seg'] or a['seq'] == 0):
            delivered_req.setdefault((f['node'], f['src'], a['invoke']), []).append((f['seq'], a))
            if a['sa']:
                # a request that accepts a segmented response is itself an announcement: that peer can receive segments
                sa_rx.setdefault((f['node'], f['src']), []).append(f['seq'])
        if a['type'] in (wire.T_CONF, wire.T_CACK) and a.get('seg') and a['seq'] == 0:
            first_seg_rx.setdefault((f['node'], f['src'], a['invoke'], a['type']), []).append((f['seq'], a['win']))
    reported = set()

    def viol(clause, what, detail, **sig):
        if (clause, what) in reported:
            return
        reported.add((clause, what))
        s = {'kind': what}
        s.update(sig)
        out.append({'clause': clause, 'detail': detail, 'sigkey': what, 'sig': s})

    resp_segments = {}     # (node, dst, invoke, reqseq) -> set of seq numbers
    start_of = {}
    start_oct = {}
    segack_rx = {}         # (node, src, invoke) -> seqs at which a server segment-ack was delivered to node
    for f in w.rx:
        n, a = txn.decode_lan_frame(f['octets'])
        if a is not None and a['type'] == wire.T_SEGACK and a['srv']:
            segack_rx.setdefault((f['node'], f['src'], a['invoke']), []).append(f['seq'])
    for f in w.tx:
        n, a = txn.decode_lan_frame(f['octets'])
        if a is None or n is None:
            continue
        node = f['node']
        if node not in h.stacks and node not in [z.name for z in h.zombies]:
            continue
        dst = f['dst']
        alen = len(n['apdu'])
        t = a['type']
        if t == wire.T_CONF:
            # knowledge counts as of the latest (re)start of this transfer: a transfer already
            # in progress cannot be re-segmented when an I-Am arrives in the middle of it
            # (sequence number 0 comes round again at segment 256, 512, ...: a first segment is recognised by the service
            # parameters of the harness' private transfer it starts with)
            if not a['seg'] or (a['seq'] == 0 and bytes(a['data'][:3]) == b'\x0a\x03\xe7'):
                k3 = (node, dst, a['invoke'])
                prev = start_oct.get(k3)
                if (a['seg'] and prev is not None and prev[1] == f['octets']
                        and not any(prev[0] < q < f['seq'] for q in segack_rx.get(k3, ()))):
                    # the segment timer repeats the unacknowledged first segment: still the same transfer
                    w.probe('c12-first-segment-repeat')
                else:
                    start_of[k3] = f['seq']
                    start_oct[k3] = (f['seq'], f['octets'])
            st0 = start_of.get((node, dst, a['invoke']), f['seq'])
            known = [x for x in iam.get((node, dst), []) if x[0] < st0]
            if known and known[-1][1] is not None:
                _, pmax, pseg = known[-1]
                if alen > pmax:
                    viol('C12.a', 'request-exceeds-iam', '%s sent a %d-octet %s request APDU to %s whose I-Am (delivered earlier) announced max-APDU %d'
                         % (node, alen, 'segmented' if a['seg'] else 'unsegmented', dst, pmax), segmented=a['seg'], excess=min(alen - pmax, 7))
                if a['seg'] and pseg not in SEG_RX and any(known[-1][0] < q < st0 for q in sa_rx.get((node, dst), ())):
                    w.probe('c12-segment-receiver-known-from-request-header')
                elif a['seg'] and pseg not in SEG_RX:
                    viol('C12.c', 'segmented-to-nonreceiver', '%s sent a segmented request to %s whose I-Am announced %s' % (node, dst, pseg))
            if a['seg'] and a['seq'] == 0 and not (1 <= a['win'] <= 127):
                viol('C12.e', 'proposed-window-range', '%s proposed window %d in a first request segment' % (node, a['win']))
        elif t in (wire.T_CACK, wire.T_SACK, wire.T_ERROR, wire.T_REJECT) or (t == wire.T_ABORT and a['srv']):
            reqs = [x for x in delivered_req.get((node, dst, a['invoke']), []) if x[0] < f['seq']]
            if not reqs:
                continue
            rseq, rh = reqs[-1]
            lim = wire.MAX_APDU.get(rh['maxresp'])
            # the header field has six code points and rounds down; an I-Am delivered earlier from that address states the
            # exact figure.  The library answers up to the larger of the two -- both are "what that peer announced".
            kn = [x for x in iam.get((node, dst), []) if x[0] < rseq]
            if lim is not None and kn and kn[-1][1] is not None and kn[-1][1] > lim:
                if alen > lim:
                    w.probe('c12-response-within-iam-above-header')
                lim = kn[-1][1]
            if lim is not None and alen > lim:
                viol('C12.a', 'response-exceeds-request-limit', '%s sent a %d-octet %s APDU to %s in answer to a request announcing max-APDU %d'
                     % (node, alen, a['name'] + ('(segment)' if a.get('seg') else ''), dst, lim), segmented=bool(a.get('seg')), excess=min(alen - lim, 7))
            if t == wire.T_CACK and a['seg']:
                if not rh['sa']:
                    viol('C12.b', 'segmented-response-not-accepted', '%s sent a segmented response to %s although the request did not set segmented-response-accepted' % (node, dst))
                ms = wire.MAX_SEGS.get(rh['maxsegs'])
                k = (node, dst, a['invoke'], rseq)
                resp_segments.setdefault(k, set()).add(a['seq'])
                if ms is not None and len(resp_segments[k]) > ms:
                    viol('C12.b', 'too-many-segments', '%s sent more than %d segments to %s although the request accepts at most %d' % (node, ms, dst, ms))
                if a['seq'] == 0 and not (1 <= a['win'] <= 127):
                    viol('C12.e', 'proposed-window-range', '%s proposed window %d in a first response segment' % (node, a['win']))
        elif t == wire.T_SEGACK:
            if not (1 <= a['win'] <= 127):
                viol('C12.e', 'segack-window-range', '%s sent a segment-ack with window %d' % (node, a['win']))
            # the first segment this ack answers: srv=1 acks a request (conf) segment, srv=0 a response (cack) segment
            ft = wire.T_CONF if a['srv'] else wire.T_CACK
            firsts = [x for x in first_seg_rx.get((node, dst, a['invoke'], ft), []) if x[0] < f['seq']]
            if firsts and a['win'] > firsts[-1][1]:
                viol('C12.e', 'segack-window-exceeds-proposal', '%s acknowledged with window %d a transfer whose first segment proposed %d'
                     % (node, a['win'], firsts[-1][1]))

    # C12.e -- the window USED: never more segments in flight than the window the receiver declared in its latest
    # segment-ack (one before the first ack).  Same sender-side monitor as C05.b, reported under this property's clause.
    from . import c05
    for v in c05.check_wire(h):
        if v['sigkey'] in ('unacked-first', 'window-overrun', 'proposed-window-range'):
            viol('C12.e', 'used-' + v['sigkey'], v['detail'])

    # C12.d -- infeasible transfers end in an abort for the requester
    if not h.w.plan.fired and not h.timed_fired:
        for r in h.reqs:
            c = h.cfgs[r.c]
            s = h.cfgs[r.s]
            outs = txn.outcomes_of(h, r)
            kinds = [o[2] for o in outs]
            L_rq = txn.pt_service_len(r.rq)
            L_rs = txn.pt_service_len(r.rs)
            known = [x for x in iam.get((r.c, r.peer), []) if r.act0 is not None and x[0] < r.act0]
            infeasible = None
            if known and known[-1][1] is not None:
                _, pmax, pseg = known[-1]
                if L_rq + 4 > pmax:
                    if c['seg'] not in SEG_TX:
                        infeasible = 'request needs segmentation, requester cannot transmit segments'
                    elif pseg not in SEG_RX and not any(known[-1][0] < q < r.act0 for q in sa_rx.get((r.c, r.peer), ())):
                        infeasible = 'request needs segmentation, peer I-Am says %s' % pseg
            kn_s = [x for x in iam.get((r.s, addr_of.get(r.c)), []) if r.act0 is not None and x[0] < r.act0]
            if infeasible is None and kn_s and kn_s[-1][1] is not None and kn_s[-1][1] > c['maxApdu']:
                # the responder was told more from the requester's address than the requester is configured for (an earlier
                # owner of that address): what it can build is not predictable from the two configurations alone
                w.probe('c12-responder-knows-more-than-configured')
            elif infeasible is None:
                lim = c['maxApdu']
                if L_rs + 3 > lim:
                    ms = wire.MAX_SEGS[_maxsegs_code(c['maxSegs'])]
                    if c['seg'] not in SEG_RX:
                        infeasible = 'response needs segmentation, requester does not accept segmented responses'
                    elif s['seg'] not in SEG_TX:
                        infeasible = 'response needs segmentation, responder cannot transmit segments'
                    elif ms is not None and -(-L_rs // (lim - 5)) > ms:
                        infeasible = 'response needs %d segments, requester accepts %d' % (-(-L_rs // (lim - 5)), ms)
            if infeasible and kinds != ['abort']:
                viol('C12.d', 'no-abort-for-infeasible', 'request tok=%x (rq %d, rs %d octets of service data): %s, but requester outcomes were %r'
                     % (r.tok, L_rq, L_rs, infeasible, [(o[2], o[3]) for o in outs]), why=infeasible.split(',')[0])
            if not infeasible and known and kinds == ['ack']:
                w.probe('feasible_ack')
            if infeasible:
                w.probe('infeasible_abort')
    return out


def _maxsegs_code(v):
    if v is None:
        return 0
    if v < 2:
        return 0
    if v > 64:
        return 7
    for code, lim in ((1, 2), (2, 4), (3, 8), (4, 16), (5, 32), (6, 64)):
        if v < lim * 2 and v >= lim:
            return code
    return 7


def execute_desc(desc):
    h = txn.execute(desc)
    v = check(h)
    return {'violations': v, 'digest': h.w.digest(), 'events_tail': [list(map(str, e)) for e in h.w.events[-40:]]}


freeze = c04.freeze


def simplify(desc):
    for i, op in enumerate(desc.get('ops', [])):
        if op.get('op') != 'req':
            continue
        for fld in ('rq', 'rs'):
            if op[fld] > 3:
                d = copy.deepcopy(desc)
                d['ops'][i][fld] = 3
                yield d


def lengths_for(limit_a, limit_b, maxsegs):
    """payload lengths around every boundary the two capability sets create"""
    out = {0, 3}
    for lim in {limit_a, limit_b, min(limit_a, limit_b)}:
        for hdr in (0, 3, 4, 5, 6):
            for k in (1, 2, 3):
                for d in (-1, 0, 1):
                    out.add(payload_len_for_service_len(k * (lim - hdr) + d))
        if maxsegs:
            for hdr in (0, 5, 6):
                for d in (-1, 0, 1):
                    out.add(payload_len_for_service_len(maxsegs * (lim - hdr) + d))
    return sorted(x for x in out if x >= 0)


def gen_desc(seed, idx):
    rng = rng_for(seed, 'C12', idx)
    caps = []
    for i in range(2):
        caps.append({'maxApdu': rng.choice(txngen.APDU_SIZES), 'seg': rng.choice(txngen.SEGS),
                     'maxSegs': rng.choice([2, 4, 8, 16, 32, 64, 100]),
                     'win': rng.choice([1, 2, 3, 8, 16, 64, 127, rng.randint(1, 127)])})
    stacks = [stack_cfg('c0', 1, 'client', mode=rng.choice(['direct', 'iocb']), **caps[0]),
              stack_cfg('s0', 10, 'server', **caps[1])]
    lens = lengths_for(caps[0]['maxApdu'], caps[1]['maxApdu'], caps[0]['maxSegs'] if caps[0]['maxSegs'] <= 16 else None)
    ops = []
    n = rng.randint(1, 4)
    t = 1.0
    for k in range(n):
        both = rng.random() < 0.2
        rq = rng.choice(lens) if (both or rng.random() < 0.5) else rng.choice([0, 3, 10])
        rs = rng.choice(lens) if (both or rq <= 10) else rng.choice([0, 3, 10])
        ops.append({'t': t, 'op': 'req', 'c': 'c0', 's': 's0', 'tok': TOK_BASE + k + 1, 'rq': rq, 'rs': rs})
        t += rng.choice([0.0, 0.5, 20.0])
    # the responder also issues requests of its own (both stacks play both roles): what a stack learned about its peer
    # while SERVING it must not change what it may send to it as a requester
    if stacks[1].get('mode', 'direct') == 'direct' and rng.random() < 0.5:
        lens_b = lengths_for(caps[1]['maxApdu'], caps[0]['maxApdu'], None)
        for k in range(rng.randint(1, 3)):
            rq = rng.choice(lens_b) if rng.random() < 0.7 else rng.choice([0, 3, 10])
            ops.append({'t': round(1.0 + rng.choice([0.25, 10.25, 30.25, 70.25]), 3), 'op': 'req', 'c': 's0', 's': 'c0', 'tok': TOK_BASE + 100 + k, 'rq': rq,
                        'rs': rng.choice([0, 3, 10])})
        ops.sort(key=lambda o: o['t'])
    iam = rng.random() < 0.85
    if iam and rng.random() < 0.25:
        # identity churn (legal histories only: a device instance lives at ONE address at a time).  Before a real stack has
        # announced itself its device instance may have been announced from elsewhere (the device used to live at another
        # address and moved); fresh instances appear on the other stations, move between them and take over vacated
        # addresses; the real stacks announce themselves at seeded points in between and repeat that later.  What a
        # requester may send to a peer is still bounded by what was announced FROM THAT PEER'S ADDRESS.
        iam = False
        stacks.append({'name': 'raw0', 'addr': 30, 'role': 'raw', 'spoofing': True})
        stacks.append({'name': 'raw1', 'addr': 31, 'role': 'raw', 'spoofing': True})
        tt = 0.02
        announced = set()
        for k in range(rng.randint(3, 7)):
            tt += rng.choice([0.02, 0.05, 0.1])
            if rng.random() < 0.35:
                node = rng.choice(['c0', 's0'])
                announced.add(node)
                ops.append({'t': round(tt, 3), 'op': 'iam', 'node': node})
            else:
                cands = [2000, 2001] + ([1001] if 'c0' not in announced else []) + ([1010, 1010] if 's0' not in announced else [])
                dev = rng.choice(cands)
                apdu = wire.unconf_req(0, wire.tag_objid(8, dev) + wire.tag_uint(rng.choice(txngen.APDU_SIZES)) + wire.tag_enum(rng.randint(0, 3)) + wire.tag_uint(999))
                op = {'t': round(tt, 3), 'op': 'raw', 'node': rng.choice(['raw0', 'raw1']), 'dst': '*', 'octets': wire.encode_npdu(apdu).hex()}
                # the address a real stack will announce itself from may have belonged to another device before
                if dev >= 2000 and rng.random() < 0.3:
                    free = [a for (n_, a) in (('c0', 1), ('s0', 10)) if n_ not in announced]
                    if free:
                        op['src'] = rng.choice(free)
                ops.append(op)
        for node in ('c0', 's0'):
            if node not in announced and rng.random() < 0.85:
                tt += 0.02
                ops.append({'t': round(tt, 3), 'op': 'iam', 'node': node})
        if rng.random() < 0.3:
            ops.append({'t': 15.1, 'op': 'iam', 'node': rng.choice(['c0', 's0'])})
        ops.sort(key=lambda o: o['t'])
    faults = {'mode': 'none'}
    # (no delays in churn histories: an old announcement that overtakes a newer one makes the history the RECEIVER sees an
    # illegal one -- two addresses for one instance -- about which the property says nothing)
    if rng.random() < 0.2 and len(stacks) == 2:
        faults = {'mode': 'hashed', 'rates': {rng.choice(['drop', 'delay']): 0.05}, 'salt': rng.randrange(1 << 30),
                  'delays': [0.001, 1.0, 3.0], 'gaps': [0.0]}
    if len(stacks) == 2 and rng.random() < 0.08:
        # both directions segmented and the server's segment-acks late or lost: the reply overtakes the final request
        # segment-ack, the window negotiation of the reply runs through the client's request-side code
        big = [x for x in lens if x + 8 > min(caps[0]['maxApdu'], caps[1]['maxApdu'])] or lens
        for op in ops:
            if op['op'] == 'req' and op['c'] == 'c0':
                op['rq'] = rng.choice(big)
                op['rs'] = rng.choice(big)
        faults = {'mode': 'hashed', 'rates': {rng.choice(['delay', 'delay', 'drop']): 0.5}, 'roles': rng.choice([['segack-s'], ['segack-s'], ['cack-first', 'segack-c'], ['cack-first']]),
                  'salt': rng.randrange(1 << 30), 'delays': [0.001, 0.3, 1.2], 'gaps': [0.0], 'max': rng.choice([1, 2, None])}
    elif iam and len(stacks) == 2 and rng.random() < 0.06:
        # the peer's I-Am is late (arrives after the first transmission) and the first transmission is lost: the RETRY is a
        # new sending decision and has to respect what was announced in between
        faults = {'mode': 'explicit', 'list': [{'kind': 'delay', 'd': rng.choice([1.5, 2.5, 3.5]), 'ord': rng.choice([0, 1])},
                                               {'kind': 'drop', 'ord': 2}]}
    if iam and len(stacks) == 2 and faults.get('mode') == 'none' and rng.random() < 0.06:
        # the peer is known, the first transmission is lost, and before the retry the peer announces itself again from the
        # same address with SMALLER limits (it was restarted with another configuration): the retry has to respect them
        stacks.append({'name': 'raw0', 'addr': 30, 'role': 'raw', 'spoofing': True})
        smaller = [x for x in txngen.APDU_SIZES if x < caps[1]['maxApdu']] or [50]
        apdu = wire.unconf_req(0, wire.tag_objid(8, 1010) + wire.tag_uint(rng.choice(smaller)) + wire.tag_enum(rng.choice([0, 0, 2, 3, 1])) + wire.tag_uint(999))
        ops.append({'t': rng.choice([1.5, 2.5, 3.5]), 'op': 'raw', 'node': 'raw0', 'dst': '*', 'src': 10, 'octets': wire.encode_npdu(apdu).hex()})
        ops.sort(key=lambda o: o['t'])
        faults = {'mode': 'explicit', 'list': [{'kind': 'drop', 'ord': 2}]}
    # (drawn last so that every other description keeps its draws)
    stale = False
    if len(stacks) == 2 and faults.get('mode') == 'none' and rng.random() < 0.06:
        # stale owner: the requester's ADDRESS was announced earlier by another device (since replaced) with other
        # capabilities, and the requester itself never announces.  What the request header says (segmented-response-
        # accepted, max segments) still bounds the answer: a cached record of the address must not override it.
        iam = False
        stale = True
        stacks.append({'name': 'raw0', 'addr': 30, 'role': 'raw', 'spoofing': True})
        if rng.random() < 0.7:
            stacks[0]['seg'] = rng.choice(['noSegmentation', 'segmentedTransmit'])
        if rng.random() < 0.7:
            stacks[1]['seg'] = rng.choice(['segmentedBoth', 'segmentedTransmit'])
        apdu = wire.unconf_req(0, wire.tag_objid(8, 2000) + wire.tag_uint(rng.choice(txngen.APDU_SIZES)) + wire.tag_enum(rng.choice([0, 2, 0, 2, 1, 3])) + wire.tag_uint(999))
        ops.append({'t': 0.05, 'op': 'raw', 'node': 'raw0', 'dst': '*', 'src': 1, 'octets': wire.encode_npdu(apdu).hex()})
        if rng.random() < 0.7:
            ops.append({'t': 0.1, 'op': 'iam', 'node': 's0'})
        big = [x for x in lens if x + 8 > caps[0]['maxApdu']] or lens
        for op in ops:
            if op['op'] == 'req' and op['c'] == 'c0' and rng.random() < 0.7:
                op['rq'] = rng.choice([0, 3, 10])
                op['rs'] = rng.choice(big)
        ops.sort(key=lambda o: o['t'])
    desc = {'prop': 'C12', 'scenario': 'txn', 'seed': H(seed, 'C12run', idx) & 0x7fffffff, 'stacks': stacks,
            'iam': iam, 'ops': ops, 'faults': faults, 'caps': {'frames': 40000, 'ticks': 600000}}
    if stale:
        desc['stale_owner'] = True
    return desc


def run_unit(unit):
    agg = Agg()
    for idx in range(unit['start'], unit['start'] + unit['count']):
        d = gen_desc(unit['seed'], idx)
        h = txn.execute(d)
        viols = check(h)
        agg.evals += 1
        agg.sim_seconds += h.w.sim_seconds
        if d.get('stale_owner'):
            agg.stat('probe.c12-stale-owner-history')
        for k, v in h.w.plan.counts.items():
            agg.stat('fault.' + k, v)
        for k, v in h.w.probes.items():
            agg.stat('probe.' + k, v)
        for e in h.errors:
            agg.stat('looperr.%s:%s:%s' % (e[1], e[2], e[3]))
        outs = [o for r in h.reqs for o in txn.outcomes_of(h, r)]
        for o in outs:
            agg.stat('outcome.%s' % (o[2],))
        if outs:
            c, s = d['stacks'][:2]
            agg.sigs.add(H(c['maxApdu'], c['seg'], c['maxSegs'], s['maxApdu'], s['seg'], d['iam'],
                           tuple((op['rq'], op['rs']) for op in d['ops'] if op['op'] == 'req'), tuple(o[2] for o in outs)))
        if len(agg.samples) < 2:
            agg.samples.append({'desc': d, 'trace': txngen.trace_sample(h, 25), 'outcomes': [[o[2], str(o[3])] for o in outs]})
        for v in viols:
            agg.violation(v, d)
    return agg.result()


def units(tier, seed):
    n = 6000 if tier == 'thorough' else 700
    return [{'kind': 'explore', 'seed': seed, 'start': k * 100, 'count': 100} for k in range(n)]


def selftest_descs(tier, seed):
    return [gen_desc(seed, 3000003 + i) for i in range(4)]


def evidence(tier, seed, total):
    return {
        'level': LEVEL,
        'coverage': {
            'rule': '[additions: both stacks issue requests; identity-churn histories (I-Ams from other stations incl. spoofed earlier owners of an address, devices that move, addresses taken over); stale-owner histories (the address of the requester was announced by a since-replaced device with other capabilities and the requester stays silent: the request header alone bounds the answer); late I-Am with a lost first transmission; re-announcement with smaller limits before a retry; transfers segmented in both directions with late / lost server segment-acks and first response segments; the window actually used is monitored (C12.e)] Each run draws independent capabilities for requester and responder (six standard max-APDU sizes x four segmentation values x '
                    'max-segments {2..64,>64} x window 1..127), lets both announce I-Am (85% of runs) and issues 1-4 echo transactions whose request / '
                    'response service-data lengths sit on every boundary the two capability sets create (k*(limit-header) +-1, max-segments*(limit-header) +-1). '
                    '20% of runs add drops/delays so the same invariants are checked during retransmission. A run is non-trivial when at least one request '
                    'reached an outcome; distinct = distinct (capability pair, I-Am flag, length list, outcome list) tuples (set of hashes).',
            'components_real': c04.evidence(tier, seed, total)['coverage']['components_real'] + ['service.device.WhoIsIAmServices (I-Am)'],
            'components_stub': ['wall clock (virtual)', 'LAN fabric'],
        },
        'assumptions': ['harness decoder and capability model are correct', 'limits are those announced ON THE WIRE: max-resp/max-segs/SA bits of the request '
                        'being answered; the I-Am delivered to the sender before the request',
                        'the harness application feeds DeviceInfoCache.iam_device_info from do_IAmRequest as the library documents',
                        'C12.d is evaluated on fault-free runs only and only in the direction the property states (infeasible => abort)'],
    }
