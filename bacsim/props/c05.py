"""
C05 -- segmented transfers deliver the exact payload and survive any single
fault.  Fault enumeration over (APDU size x payload length x window x frame x
fault kind) + seeded multi-fault exploration.
"""

import copy

from .. import txn, txngen, wire
from ..driver import Agg
from ..stacks import TOK_BASE, payload, VENDOR
from ..txngen import rng_for, stack_cfg, boundary_lengths, payload_len_for_service_len
from ..world import H
from . import c04

ID = 'C05'
LEVEL = 'fault_enumeration'
BUDGET = {'quick': 60, 'thorough': 800}
SHRINK_LISTS = [('faults', 'list'), ('timed',), ('ops',)]

T_SEG = 1000
T_OUT = 6000
D_MAX = 1.5


def service_data(tok, data):
    """Service parameters of the private transfer request/ack as the harness'
    own encoder produces them."""
    out = wire.ctx_uint(0, VENDOR) + wire.ctx_uint(1, tok)
    if len(data) > 0:
        out += wire.ctx_open(2) + wire.tag_octets(data) + wire.ctx_close(2)
    return out


# ------------------------------------------------------------------ oracle

def check(h):
    out = []
    w = h.w
    seed = w.seed
    if h.result == 'budget':
        out.append({'clause': 'C05.a', 'detail': 'transfer never completed: run exceeded the frame/tick budget (%s) at t=%.3f after %d frames'
                    % (w.budget_hit, w.now, w.frames), 'sigkey': 'budget',
                    'sig': {'kind': 'budget', 'max_segments': c04._max_segments(h)}})
        return out
    out += check_integrity(h)
    out += check_wire(h)
    if h.desc.get('single_fault'):
        out += check_repair(h)
    if h.desc.get('must_succeed') and not h.w.plan.fired and not h.timed_fired:
        for r in h.reqs:
            outs = txn.outcomes_of(h, r)
            if not (len(outs) == 1 and outs[0][2] == 'ack'):
                c = h.cfgs[r.c]
                segs = max(txn.seg_count(txn.pt_service_len(r.rq), c['maxApdu']), txn.seg_count(txn.pt_service_len(r.rs), c['maxApdu']))
                out.append({'clause': 'C05.c', 'detail': 'fault-free transfer (request %d / response %d octets, max-APDU %d, windows %d/%d, %d segments) did not succeed: %r'
                            % (r.rq, r.rs, c['maxApdu'], c['win'], h.cfgs[r.s]['win'], segs, [(o[2], o[3]) for o in outs]),
                            'sigkey': 'fault-free-failure', 'sig': {'kind': 'fault-free-failure', 'segments': '>256' if segs > 256 else '<=256'}})
    return out


def check_integrity(h):
    out = []
    seed = h.w.seed
    # server side: every indication carries the submitted request payload
    for name in sorted(h.stacks):
        for st in [h.stacks[name]] + [z for z in h.zombies if z.name == name]:
            for (seq, t, peer, inv, tok, data) in st.app.inds:
                r = h.by_tok.get(tok)
                if r is None:
                    out.append({'clause': 'C05.a', 'detail': 'server %s indicated with unknown token %r (len %d) at seq %d' % (name, tok, len(data), seq),
                                'sigkey': 'ind-unknown-token', 'sig': {'kind': 'ind-unknown-token'}})
                    continue
                exp = payload(seed, tok, 'rq', r.rq)
                if data != exp and _wrap_alias(h, tok, data, exp):
                    h.w.probe('c05-wrap-alias-exempt')
                elif data != exp:
                    out.append({'clause': 'C05.a', 'detail': 'server %s indicated tok=%x with %d octets, submitted %d octets (%s)'
                                % (name, tok, len(data), len(exp), _diff(data, exp)), 'sigkey': 'ind-payload',
                                'sig': {'kind': 'ind-payload', 'how': _diff_kind(data, exp)}})
            # client side
            for (seq, t, peer, inv, kind, detail, data) in st.app.confs:
                if kind == 'ack':
                    out += _check_ack(h, name, seq, detail, data, None)
            for (seq, t, tok, kind, detail, data, ncb) in st.app.iocb_done:
                if kind == 'ack':
                    out += _check_ack(h, name, seq, detail, data, tok)
    return out


def _check_ack(h, name, seq, tok, data, iocb_tok):
    r = h.by_tok.get(tok)
    if r is None:
        return [{'clause': 'C05.a', 'detail': 'client %s confirmed ack with unknown token %r at seq %d' % (name, tok, seq),
                 'sigkey': 'ack-unknown-token', 'sig': {'kind': 'ack-unknown-token'}}]
    exp = payload(h.w.seed, tok, 'rs', r.rs)
    if data != exp and _wrap_alias(h, tok, data, exp):
        h.w.probe('c05-wrap-alias-exempt')
        return []
    if data != exp:
        return [{'clause': 'C05.a', 'detail': 'client %s confirmed tok=%x with %d octets, server submitted %d octets (%s)'
                 % (name, tok, len(data), len(exp), _diff(data, exp)), 'sigkey': 'ack-payload',
                 'sig': {'kind': 'ack-payload', 'how': _diff_kind(data, exp)}}]
    return []


def _wrap_alias(h, tok, data, exp):
    """Sequence numbers are 8 bits wide: a late network copy of segment j that
    arrives exactly when the receiver expects segment j + 256k is, for ANY
    receiver, indistinguishable from the right one.  A delivered message that
    differs from the submitted one only in whole segments i which are verbatim
    copies of submitted segment j == i (mod 256), j != i, is that protocol
    ambiguity and not an implementation failure (DESIGN 12.2)."""
    if len(data) != len(exp):
        return False
    a = service_data(tok, data)
    b = service_data(tok, exp)
    sizes = set()
    for f in h.w.tx:
        n, ap = txn.decode_lan_frame(f['octets'])
        if ap is not None and ap['type'] in (wire.T_CONF, wire.T_CACK) and ap['seg'] and ap['seq'] == 0 and ap['mor']:
            sizes.add(len(ap['data']))
    for S in sorted(sizes):
        if S <= 0 or len(a) <= 256 * S:
            continue
        A = [a[i:i + S] for i in range(0, len(a), S)]
        B = [b[i:i + S] for i in range(0, len(b), S)]
        diff = [i for i in range(len(A)) if A[i] != B[i]]
        if diff and all(any(A[i] == B[j] for j in range(i % 256, len(B), 256) if j != i) for i in diff):
            return True
    return False


def _diff_kind(a, b):
    if len(a) < len(b):
        return 'short'
    if len(a) > len(b):
        return 'long'
    return 'content'


def _diff(a, b):
    n = min(len(a), len(b))
    i = 0
    while i < n and a[i] == b[i]:
        i += 1
    return 'first difference at octet %d' % i


class _Xfer:
    __slots__ = ('expected', 'seg', 'count', 'acked', 'win', 'proposed', 'tok')


def check_wire(h):
    """C05.b: wire discipline of what each SENDER emits, judged against the
    segment-acks delivered to it."""
    out = []
    w = h.w
    ev = []
    for f in w.tx:
        ev.append((f['seq'], 0, f))
    for f in w.rx:
        ev.append((f['seq'], 1, f))
    ev.sort(key=lambda x: x[0])
    # 'resp' events: (seq, t, 'resp', server, peer, invoke, tok, rs_len)
    resp_events = [e for e in w.events if e[2] == 'resp']
    addr_of = {name: str(st.address) for name, st in h.stacks.items()}
    xf = {}
    reported = set()

    def viol(key, what, detail):
        if (key, what) in reported:
            return
        reported.add((key, what))
        out.append({'clause': 'C05.b', 'detail': detail, 'sigkey': what, 'sig': {'kind': what, 'dir': key[3]}})

    for seq, isrx, f in ev:
        n, a = txn.decode_lan_frame(f['octets'])
        if a is None:
            continue
        t = a['type']
        if not isrx:
            node = f['node']
            if t == wire.T_CONF and a['seg']:
                key = (node, f['dst'], a['invoke'], 'rq')
            elif t == wire.T_CACK and a['seg']:
                key = (node, f['dst'], a['invoke'], 'rs')
            else:
                continue
            st = h.stacks.get(node)
            if st is not None and st.node.dead and False:
                continue
            x = xf.get(key)
            sq = a['seq']
            idx = None
            if x is not None and x.acked >= 0 and x.win:
                off = (sq - (x.acked + 1)) % 256
                cand = x.acked + 1 + off
                if sq != 0 or (off < max(x.win, 1) and cand < x.count):
                    idx = cand
            if idx is None:
                if sq != 0:
                    # a non-first segment with no acknowledged first segment
                    if x is None:
                        viol(key, 'segment-before-first', '%s emitted segment seq=%d of invoke %d to %s before any first segment'
                             % (node, sq, a['invoke'], f['dst']))
                        continue
                    idx = sq if x.acked < 0 else x.acked + 1 + ((sq - (x.acked + 1)) % 256)
                else:
                    idx = 0
            if idx == 0:
                # (re)start of a transfer
                exp, tok = _expected(h, resp_events, key, seq)
                if exp is None:
                    continue
                if x is not None and x.acked < 0 and x.tok == tok and x.expected == exp and x.seg == len(a['data']):
                    # retransmission of the first segment of the same transfer: what the peer has declared so far stands
                    pass
                else:
                    x = _Xfer()
                    x.expected = exp
                    x.tok = tok
                    x.seg = len(a['data'])
                    x.count = max(1, -(-len(exp) // x.seg)) if x.seg else 1
                    x.acked = -1
                    x.win = None
                    x.proposed = a['win']
                    xf[key] = x
                if not (1 <= a['win'] <= 127):
                    viol(key, 'proposed-window-range', '%s first segment proposes window %d' % (node, a['win']))
                if x.seg == 0:
                    viol(key, 'empty-first-segment', '%s emitted an empty first segment' % node)
                    continue
            else:
                if x.acked < 0 and x.win:
                    # a segment-ack of the peer for this invoke id was delivered since the first segment went out, it does not
                    # cover segment 0 (a late copy from an identical earlier exchange): the window it declares is the only
                    # agreement the sender can know of, so the statement's bound is that window counted from segment 0
                    w.probe('c05-window-from-uncovering-ack')
                    if idx > x.acked + x.win:
                        viol(key, 'window-overrun', '%s emitted segment index %d of invoke %d with no segment acknowledged and declared window %d'
                             % (node, idx, a['invoke'], x.win))
                elif x.acked < 0:
                    viol(key, 'unacked-first', '%s emitted segment index %d (seq %d) of invoke %d although no segment-ack for segment 0 was delivered to it'
                         % (node, idx, sq, a['invoke']))
                elif idx > x.acked + x.win:
                    viol(key, 'window-overrun', '%s emitted segment index %d of invoke %d with last acked %d and agreed window %d'
                         % (node, idx, a['invoke'], x.acked, x.win))
            want = x.expected[idx * x.seg:(idx + 1) * x.seg]
            if idx >= x.count:
                viol(key, 'segment-beyond-end', '%s emitted segment index %d (seq %d) of a %d-segment message' % (node, idx, sq, x.count))
                continue
            if a['data'] != want:
                viol(key, 'segment-content', '%s segment index %d (seq %d) of invoke %d (tok %x, %d segments) does not carry octets [%d,%d) of the submitted message (%s)'
                     % (node, idx, sq, a['invoke'], x.tok, x.count, idx * x.seg, (idx + 1) * x.seg, _diff(a['data'], want)))
            if a['mor'] != (idx < x.count - 1):
                viol(key, 'more-follows', '%s segment index %d of %d has more-follows=%r' % (node, idx, x.count, a['mor']))
            if sq != idx % 256:
                viol(key, 'sequence-number', '%s segment index %d carries sequence number %d' % (node, idx, sq))
        else:
            if t != wire.T_SEGACK:
                continue
            node = f['node']
            key = (node, f['src'], a['invoke'], 'rq' if a['srv'] else 'rs')
            x = xf.get(key)
            if x is None:
                continue
            x.win = a['win']
            off = (a['seq'] - (x.acked + 1)) % 256
            if a['win'] and off < a['win'] and x.acked + 1 + off < x.count:
                x.acked = x.acked + 1 + off
            elif x.acked < 0 and a['seq'] == 0:
                x.acked = 0
    return out


def _expected(h, resp_events, key, seq):
    node, dst, invoke, dirn = key
    if dirn == 'rq':
        best = None
        for r in h.reqs:
            if r.c == node and r.peer == dst and r.invoke == invoke and r.act0 is not None and r.act0 <= seq:
                if best is None or r.act0 > best.act0:
                    best = r
        if best is None:
            # direct mode: invoke id is assigned inside the submit bracket
            for r in h.reqs:
                if r.c == node and r.peer == dst and r.seq0 <= seq and (r.seq1 is None or seq <= r.seq1):
                    best = r
        if best is None:
            return None, None
        return service_data(best.tok, payload(h.w.seed, best.tok, 'rq', best.rq)), best.tok
    best = None
    for e in resp_events:
        if e[0] > seq:
            break
        if e[3] == node and e[4] == dst and e[5] == invoke:
            best = e
    if best is None:
        return None, None
    tok, rs = best[6], best[7]
    return service_data(tok, payload(h.w.seed, tok, 'rs', rs)), tok


def check_repair(h):
    """C05.c: exactly one drop / duplicate / bounded delay => the transaction
    still succeeds with the exact payload."""
    out = []
    fired = h.w.plan.fired
    if len(fired) != 1:
        return out
    f = fired[0]
    for r in h.reqs:
        outs = txn.outcomes_of(h, r)
        ok = len(outs) == 1 and outs[0][2] == 'ack' and outs[0][4] == payload(h.w.seed, r.tok, 'rs', r.rs)
        ind_ok = False
        for st in h.stacks.values():
            for (seq, t, peer, inv, tok, data) in st.app.inds:
                if tok == r.tok and data == payload(h.w.seed, r.tok, 'rq', r.rq):
                    ind_ok = True
        if not (ok and ind_ok):
            loop = sorted(set('%s:%s' % (e[1], e[3]) for e in h.errors))
            out.append({'clause': 'C05.c', 'detail': 'single %s of frame #%d (%s) was not repaired: outcomes %r, server indicated correctly: %r; loop errors %r'
                        % (f['kind'], f['_ord'], f['_role'], [(o[2], o[3]) for o in outs], ind_ok, loop),
                        'sigkey': 'unrepaired:%s:%s' % (f['kind'], f['_role']),
                        'sig': {'kind': 'unrepaired', 'fault': f['kind'], 'role': f['_role'],
                                'outcome': outs[0][2] if outs else None, 'loop': loop}})
    return out


def execute_desc(desc):
    h = txn.execute(desc)
    v = check(h)
    return {'violations': v, 'digest': h.w.digest(), 'events_tail': [list(map(str, e)) for e in h.w.events[-40:]]}


freeze = c04.freeze
simplify = c04.simplify


# ------------------------------------------------------------------ enumeration

SINGLE_FAULTS = [('drop', {}), ('dup', {'gap': 0.0}), ('dup', {'gap': 0.5}), ('dup', {'gap': D_MAX}),
                 ('delay', {'d': 0.001}), ('delay', {'d': 0.999}), ('delay', {'d': D_MAX})]


def base_desc(seed, maxapdu, rq, rs, win_c, win_s, retries=3, tok=1, maxsegs=64):
    return {
        'prop': 'C05', 'scenario': 'txn', 'seed': seed,
        'stacks': [stack_cfg('c0', 1, 'client', maxApdu=maxapdu, win=win_c, retries=retries, tseg=T_SEG, tout=T_OUT, maxSegs=maxsegs),
                   stack_cfg('s0', 10, 'server', maxApdu=maxapdu, win=win_s, retries=retries, tseg=T_SEG, tout=T_OUT, maxSegs=maxsegs)],
        'ops': [{'t': 0.0, 'op': 'req', 'c': 'c0', 's': 's0', 'tok': TOK_BASE + tok, 'rq': rq, 'rs': rs}],
        'faults': {'mode': 'explicit', 'list': []},
    }


def run_lengths(unit, agg):
    """Fault-free sweep: every payload length in [lo, hi) in one direction."""
    seed, maxapdu, dirn = unit['seed'], unit['maxApdu'], unit['dir']
    for n in range(unit['lo'], unit['hi']):
        rq, rs = (n, 3) if dirn == 'rq' else (3, n)
        d = base_desc(seed, maxapdu, rq, rs, unit['win'], unit.get('win_s', unit['win']), maxsegs=unit.get('maxsegs', 64))
        d['must_succeed'] = True
        h = txn.execute(d)
        c04._account(agg, h, d, check, trivial_ok=True)


def run_singles(unit, agg):
    """Every single fault at every frame index for one (size, length, window)."""
    d0 = unit['desc']
    h0 = txn.execute(d0)
    c04._account(agg, h0, d0, check, trivial_ok=True)
    agg.cells += 1
    n0 = h0.w.frames
    frames = range(n0)
    if unit.get('only_indexes'):
        # long transfers: faults only at the data segments with the listed absolute indexes (around the sequence-number
        # wrap, the last one) and at the frames right next to them (their segment-acks)
        sel = set()
        count = {}
        for rec in h0.w.wire:
            n, a = txn.decode_lan_frame(rec['octets'])
            if a is not None and a['type'] in (wire.T_CONF, wire.T_CACK) and a['seg']:
                k = (rec['src'], a['type'])
                idx = count.get(k, 0)
                count[k] = idx + 1
                if idx in unit['only_indexes']:
                    sel.update((rec['ord'] - 1, rec['ord'], rec['ord'] + 1))
        frames = sorted(i for i in sel if 0 <= i < n0)
    for i in frames:
        for kind, params in SINGLE_FAULTS:
            d1 = copy.deepcopy(d0)
            f = {'ord': i, 'kind': kind}
            f.update(params)
            d1['faults']['list'] = [f]
            d1['single_fault'] = True
            h1 = txn.execute(d1)
            c04._account(agg, h1, d1, check)


# ------------------------------------------------------------------ exploration

def gen_desc(seed, idx):
    rng = rng_for(seed, 'C05', idx)
    maxapdu = rng.choice([50, 50, 128, 206, 480, 1024, 1476])
    tout = rng.choice([3000, 6000])
    tseg = rng.choice([500, 1000, 2000])
    retries = rng.randint(1, 3)
    stacks = [stack_cfg('c0', 1, 'client', maxApdu=maxapdu, win=rng.randint(1, 8), retries=retries, tout=tout, tseg=tseg,
                        mode=rng.choice(['direct', 'direct', 'iocb'])),
              stack_cfg('s0', 10, 'server', maxApdu=rng.choice([maxapdu, maxapdu, 50, 480]), win=rng.randint(1, 8),
                        retries=rng.randint(1, 3), tout=tout, tseg=tseg)]
    segsz = min(maxapdu, stacks[1]['maxApdu'])
    lens = boundary_lengths(segsz, 6)
    nreq = rng.randint(1, 4)
    ops = []
    t = 0.0
    for k in range(nreq):
        t += rng.choice([0.0, 0.0, 0.3, tseg / 1000.0, 7.0])
        rq = rng.choice(lens) if rng.random() < 0.7 else rng.randint(0, 8 * segsz)
        rs = rng.choice(lens) if rng.random() < 0.7 else rng.randint(0, 8 * segsz)
        if segsz == 50 and rng.random() < 0.04:
            if rng.random() < 0.5:
                rq = rng.choice([200 * 50, 254 * 50, 255 * 50, 256 * 50, 257 * 50, 300 * 50, 520 * 50]) + rng.randint(-60, 10)
            else:
                rs = rng.choice([200 * 50, 254 * 50, 255 * 50, 256 * 50, 257 * 50, 300 * 50, 520 * 50]) + rng.randint(-60, 10)
        ops.append({'t': round(t, 4), 'op': 'req', 'c': 'c0', 's': 's0', 'tok': TOK_BASE + k + 1, 'rq': max(0, rq), 'rs': max(0, rs)})
    faults = txngen.fault_profile(rng, tout / 1000.0, tseg / 1000.0, allow_none=0.05)
    timed = []
    u = rng.random()
    if u < 0.15:
        tt = rng.choice(ops)['t'] + rng.choice([0.0, 0.0001])
        timed.append({'t': tt, 'kind': 'crash', 'node': 's0'})
        timed.append({'t': tt + rng.choice([0.0, 0.0001, 0.5, tseg / 1000.0]), 'kind': 'restart', 'node': 's0'})
    elif u < 0.25:
        timed.append({'t': rng.choice(ops)['t'] + rng.choice([0.0, 0.0001, 0.5]), 'kind': 'stall',
                      'd': rng.choice([0.5, tseg / 1000.0, 4 * tseg / 1000.0, tout / 1000.0])})
    return {'prop': 'C05', 'scenario': 'txn', 'seed': H(seed, 'C05run', idx) & 0x7fffffff, 'stacks': stacks,
            'net': {'latency': rng.choice([0.0, 0.0, 0.001, 0.02]), 'jitter': rng.choice([0.0, 0.0, 0.0, 0.002])},
            'ops': ops, 'faults': faults, 'timed': timed, 'caps': {'frames': 60000, 'ticks': 900000}}


def gen_single_fault_desc(seed, idx):
    """Random single-fault runs under protocol-sane timers (C05.c)."""
    rng = rng_for(seed, 'C05s', idx)
    maxapdu = rng.choice(txngen.APDU_SIZES)
    lens = boundary_lengths(maxapdu, 5)
    rq = rng.choice(lens) if rng.random() < 0.6 else rng.randint(0, 6 * maxapdu)
    rs = rng.choice(lens) if rng.random() < 0.6 else rng.randint(0, 6 * maxapdu)
    d = base_desc(H(seed, 'C05srun', idx) & 0x7fffffff, maxapdu, rq, rs, rng.randint(1, 8), rng.randint(1, 8), retries=rng.randint(1, 3))
    kind = rng.choice(['drop', 'dup', 'delay'])
    d['faults'] = {'mode': 'hashed', 'rates': {kind: 0.25}, 'max': 1, 'salt': rng.randrange(1 << 30),
                   'delays': [0.0005, 0.3, 0.999, 1.0, 1.001, D_MAX], 'gaps': [0.0, 0.001, 0.5, 1.0, D_MAX]}
    d['single_fault'] = True
    return d


def run_unit(unit):
    agg = Agg()
    k = unit['kind']
    if k == 'lengths':
        run_lengths(unit, agg)
    elif k == 'singles':
        run_singles(unit, agg)
    elif k == 'explore':
        for idx in range(unit['start'], unit['start'] + unit['count']):
            d = gen_desc(unit['seed'], idx)
            h = txn.execute(d)
            c04._account(agg, h, d, check)
    elif k == 'explore1':
        for idx in range(unit['start'], unit['start'] + unit['count']):
            d = gen_single_fault_desc(unit['seed'], idx)
            h = txn.execute(d)
            c04._account(agg, h, d, check)
    return agg.result()


def units(tier, seed):
    us = []
    sizes = txngen.APDU_SIZES
    if tier == 'thorough':
        for m in sizes:
            top = 4 * m + 3
            step = 300
            for dirn in ('rq', 'rs'):
                for lo in range(0, top, step):
                    us.append({'kind': 'lengths', 'must': True, 'seed': seed, 'maxApdu': m, 'dir': dirn, 'win': 2,
                               'lo': lo, 'hi': min(top, lo + step)})
        wins = [(1, 1), (2, 2), (3, 5), (5, 3), (8, 8), (4, 1), (1, 4), (7, 2)]
        kmax = 4
    else:
        for m in (50, 128):
            top = 4 * m + 3
            for dirn in ('rq', 'rs'):
                us.append({'kind': 'lengths', 'must': True, 'seed': seed, 'maxApdu': m, 'dir': dirn, 'win': 2, 'lo': 0, 'hi': top})
        wins = [(1, 1), (2, 5), (5, 2)]
        sizes = [50, 206, 1476]
        kmax = 3
    for m in sizes:
        for n in boundary_lengths(m, kmax):
            if txn.seg_count(txn.pt_service_len(n), m) < 2:
                continue
            for (wc, ws) in wins:
                for dirn in ('rq', 'rs'):
                    rq, rs = (n, 3) if dirn == 'rq' else (3, n)
                    us.append({'kind': 'singles', 'must': True, 'seed': seed,
                               'desc': base_desc(seed, m, rq, rs, wc, ws)})
    # long payloads (sequence number wrap)
    longs = [254, 255, 256, 257, 258, 300] if tier == 'quick' else [200, 254, 255, 256, 257, 258, 300, 511, 512, 513, 600]
    for segs in longs:
        n = payload_len_for_service_len(segs * 50)
        for dirn in ('rq', 'rs'):
            for win in ((2, 8) if tier == 'quick' else (1, 2, 8)):
                us.append({'kind': 'lengths', 'must': True, 'seed': seed, 'maxApdu': 50, 'dir': dirn, 'win': win, 'lo': n, 'hi': n + 1,
                           'maxsegs': 1000})
            for (wc, ws) in (((3, 7), (7, 3)) if tier == 'quick' else ((3, 7), (7, 3), (5, 4), (6, 8))):
                us.append({'kind': 'lengths', 'must': True, 'seed': seed, 'maxApdu': 50, 'dir': dirn, 'win': wc, 'win_s': ws, 'lo': n, 'hi': n + 1,
                           'maxsegs': 1000})
    # ... and every single fault at the segments around the wrap of such a transfer (repair after the wrap)
    for segs in ((300,) if tier == 'quick' else (300, 600)):
        n = payload_len_for_service_len(segs * 50)
        around = set([254, 255, 256, 257, 258, 259, segs - 1] + ([510, 511, 512, 513, 514] if segs > 520 else []))
        for dirn in ('rq', 'rs'):
            rq, rs = (n, 3) if dirn == 'rq' else (3, n)
            for (wc, ws) in (((1, 1), (2, 2), (3, 3)) if tier == 'quick' else ((1, 1), (2, 2), (3, 3), (4, 7), (8, 8))):
                us.append({'kind': 'singles', 'must': True, 'seed': seed, 'only_indexes': sorted(around),
                           'desc': base_desc(seed, 50, rq, rs, wc, ws, maxsegs=1000)})
    nu = 3000 if tier == 'thorough' else 800
    for k in range(nu):
        us.append({'kind': 'explore', 'seed': seed, 'start': k * 40, 'count': 40})
        us.append({'kind': 'explore1', 'seed': seed, 'start': k * 40, 'count': 40})
    return us


def selftest_descs(tier, seed):
    ds = [gen_desc(seed, 2000003 + i) for i in range(2)] + [gen_single_fault_desc(seed, 2000003)]
    d = base_desc(seed, 50, 260, 300, 2, 3)
    d['faults']['list'] = [{'ord': 4, 'kind': 'drop'}, {'ord': 9, 'kind': 'delay', 'd': 1.0}]
    return ds + [d]


def evidence(tier, seed, total):
    return {
        'level': LEVEL,
        'coverage': {
            'rule': 'Enumeration: (i) fault-free transfer of EVERY payload length 0..4*seg+2 in each direction for the listed max-APDU sizes; '
                    '(ii) for every boundary length (service data = k*seg-1, k*seg, k*seg+1) x window pair x direction: the fault-free run and EVERY '
                    'single fault (drop, duplicate now/after 0.5s/after 1.5s, delay 1ms/0.999s/1.5s) at EVERY frame index, with the strict C05.c oracle '
                    '(transaction must still succeed) under protocol-sane timers T_seg=1s, T_out=6s, retries 3; (iii) long payloads of 254..600 '
                    'segments (sequence wrap). Exploration: seeded multi-fault runs (hashed drop/dup/delay plans, server crash+restart mid-stream, '
                    'stalls, jitter/reordering, both client flavours) checked for receiver integrity and sender wire discipline, and seeded '
                    'single-fault runs over all six APDU sizes with the repair oracle. Non-trivial = at least one fault fired or it is an '
                    'enumerated baseline; distinct = distinct abstract event sequences (set of hashes).',
            'enumerated_cells': total['cells'],
            'exhaustive': True,
            'exhaustive_scope': 'the enumerated length sweeps and single-fault placements only',
            'components_real': c04.evidence(tier, seed, total)['coverage']['components_real'],
            'components_stub': ['wall clock (virtual)', 'LAN fabric fault layer around the real vlan.Network.process_pdu'],
        },
        'assumptions': ['CPython semantics', 'harness encoders/decoders in bacsim/wire.py (independent of bacpypes) are correct',
                        'C05.c is asserted only under protocol-sane timers (T_seg + 2*D_max < T_out, retries >= 1): the property does not quantify over timer values',
                        'one shared virtual clock'],
    }
