"""
C20 -- a schedule shows the value its calendar dictates at every instant,
never stale.  A LocalScheduleObject inside an application with a
LocalDeviceObject (whose localDate/localTime read the virtual clock), armed
and re-armed by the real scheduler, runs over 3..40 virtual days from a seeded
start instant in 1990..2099; an independent interpreter of clause 12.24
(stdlib datetime/calendar only) is the oracle, sampled every half minute of
sampled days and around every configured time-value and midnight.
"""

import calendar
import copy
import datetime

from .. import env
from ..env import clock, tm, errlog
from ..world import World, H
from ..driver import Agg
from ..txngen import rng_for
from ..stacks import SimDevice, VENDOR

import bacpypes.core as core
from bacpypes.app import Application
from bacpypes.local.schedule import LocalScheduleObject
from bacpypes.object import CalendarObject, AnalogValueObject
from bacpypes.primitivedata import Null, Unsigned, Real, Date, Time
from bacpypes.constructeddata import ArrayOf, ListOf
from bacpypes.basetypes import DailySchedule, TimeValue, SpecialEvent, SpecialEventPeriod, CalendarEntry, DateRange, WeekNDay, \
    DeviceObjectPropertyReference

ID = 'C20'
LEVEL = 'exploration'
BUDGET = {'quick': 55, 'thorough': 780}
SHRINK_LISTS = [('exceptions',), ('stalls',), ('rewrites',)]

ANY = [255, 255, 255, 255]
DAY = 86400.0


# ------------------------------------------------------------------ the independent reference interpreter

def ref_match_date(d, pat):
    """d: datetime.date; pat: [year-1900|255, month|13|14|255, day|32|33|34|255, dow|255]"""
    y, m, dd, w = pat
    if y != 255 and d.year - 1900 != y:
        return False
    if m == 13:
        if d.month % 2 != 1:
            return False
    elif m == 14:
        if d.month % 2 != 0:
            return False
    elif m != 255 and d.month != m:
        return False
    if dd == 32:
        if d.day != calendar.monthrange(d.year, d.month)[1]:
            return False
    elif dd == 33:
        if d.day % 2 != 1:
            return False
    elif dd == 34:
        if d.day % 2 != 0:
            return False
    elif dd != 255 and d.day != dd:
        return False
    if w != 255 and d.isoweekday() != w:
        return False
    return True


def ref_match_range(d, start, end):
    """inclusive range; an all-wildcard date is an open end"""
    if start[:3] != [255, 255, 255]:
        if (d.year - 1900, d.month, d.day) < tuple(start[:3]):
            return False
    if end[:3] != [255, 255, 255]:
        if (d.year - 1900, d.month, d.day) > tuple(end[:3]):
            return False
    return True


def ref_match_weeknday(d, wnd):
    m, wk, dow = wnd
    if m == 13:
        if d.month % 2 != 1:
            return False
    elif m == 14:
        if d.month % 2 != 0:
            return False
    elif m != 255 and d.month != m:
        return False
    last = calendar.monthrange(d.year, d.month)[1]
    if wk != 255:
        if 1 <= wk <= 5:
            lo, hi = (wk - 1) * 7 + 1, min(wk * 7, 31)
        elif wk == 6:
            lo, hi = last - 6, last
        elif wk == 7:
            lo, hi = last - 13, last - 7
        elif wk == 8:
            lo, hi = last - 20, last - 14
        elif wk == 9:
            lo, hi = last - 27, last - 21
        else:
            return False
        if not (lo <= d.day <= hi):
            return False
    if dow != 255 and d.isoweekday() != dow:
        return False
    return True


def ref_entry_matches(d, entry):
    k = entry['kind']
    if k == 'date':
        return ref_match_date(d, entry['date'])
    if k == 'range':
        return ref_match_range(d, entry['start'], entry['end'])
    if k == 'weeknday':
        return ref_match_weeknday(d, entry['wnd'])
    raise ValueError(k)


def ref_period_matches(cfg, d, period):
    if period['kind'] == 'calref':
        return any(ref_entry_matches(d, e) for e in cfg['calendar'])
    return ref_entry_matches(d, period)


def ref_value(cfg, dt):
    """value prescribed at datetime dt (naive UTC), or 'OUT' outside the effective period"""
    d = dt.date()
    if not ref_match_range(d, cfg['effective'][0], cfg['effective'][1]):
        return 'OUT'
    tod = (dt.hour, dt.minute, dt.second, dt.microsecond // 10000)
    best = None
    for ex in sorted(cfg['exceptions'], key=lambda e: e['priority']):
        if not ref_period_matches(cfg, d, ex['period']):
            continue
        cur = None
        for (t, v) in ex['tv']:
            if tuple(t) <= tod:
                cur = v
        if cur is not None:
            return cur
    cur = None
    day = cfg['weekly'][d.isoweekday() - 1] if cfg.get('weekly') else []
    for (t, v) in day:
        if tuple(t) <= tod:
            cur = v
    if cur is not None:
        return cur
    return cfg['default']


def change_points(cfg):
    """times of day at which anything may change"""
    pts = {(0, 0, 0, 0)}
    for day in cfg.get('weekly') or []:
        for (t, v) in day:
            pts.add(tuple(t))
    for ex in cfg['exceptions']:
        for (t, v) in ex['tv']:
            pts.add(tuple(t))
    return sorted(pts)


# ------------------------------------------------------------------ building the real objects

def tv(t, v, real):
    return TimeValue(time=tuple(t), value=(Null() if v is None else (Real(float(v)) if real else Unsigned(v))))


def entry_obj(e):
    if e['kind'] == 'date':
        return CalendarEntry(date=tuple(e['date']))
    if e['kind'] == 'range':
        return CalendarEntry(dateRange=DateRange(startDate=tuple(e['start']), endDate=tuple(e['end'])))
    return CalendarEntry(weekNDay=bytes(e['wnd']))


def build_exceptions(cfg):
    out = []
    for ex in cfg['exceptions']:
        p = ex['period']
        if p['kind'] == 'calref':
            period = SpecialEventPeriod(calendarReference=('calendar', 1))
        else:
            period = SpecialEventPeriod(calendarEntry=entry_obj(p))
        out.append(SpecialEvent(period=period, listOfTimeValues=[tv(t, v, cfg['real']) for (t, v) in ex['tv']], eventPriority=ex['priority']))
    return out


def build_weekly(cfg):
    return ArrayOf(DailySchedule)([DailySchedule(daySchedule=[tv(t, v, cfg['real']) for (t, v) in day]) for day in cfg['weekly']])


class Run:
    def __init__(self, desc):
        self.desc = desc
        cfg = desc['cfg']
        w = World(desc['seed'], faults=None, frame_cap=1000, tick_cap=150000)
        self.w = w
        # the run's own epoch: virtual clock = real calendar time (TZ is UTC)
        self.t_start = desc['start']
        clock.now = float(self.t_start)
        w.t0 = clock.now
        dev = SimDevice(objectName='dev', objectIdentifier=('device', 4001), vendorIdentifier=VENDOR)
        self.app = Application(dev)
        mk = (lambda v: Real(float(v))) if cfg['real'] else (lambda v: Unsigned(v))
        kwargs = dict(objectIdentifier=('schedule', 1), objectName='sched', presentValue=mk(cfg['default']),
                      effectivePeriod=DateRange(startDate=tuple(cfg['effective'][0]), endDate=tuple(cfg['effective'][1])),
                      scheduleDefault=mk(cfg['default']))
        if cfg.get('weekly'):
            kwargs['weeklySchedule'] = build_weekly(cfg)
        if cfg['exceptions']:
            kwargs['exceptionSchedule'] = ArrayOf(SpecialEvent)(build_exceptions(cfg))
        if cfg.get('target'):
            kwargs['listOfObjectPropertyReferences'] = ListOf(DeviceObjectPropertyReference)([
                DeviceObjectPropertyReference(objectIdentifier=('analogValue', 1), propertyIdentifier='presentValue')])
            kwargs['priorityForWriting'] = 8
            from .c15 import make_class
            self.target = make_class('AnalogValueObject', ['presentValue'])(objectIdentifier=('analogValue', 1), objectName='target', presentValue=-1.0)
            self.app.add_object(self.target)
        else:
            self.target = None
        if cfg.get('calendar') is not None:
            cal = CalendarObject(objectIdentifier=('calendar', 1), objectName='cal', dateList=ListOf(CalendarEntry)([entry_obj(e) for e in cfg['calendar']]))
            self.app.add_object(cal)
        self.construct_error = None
        try:
            self.sched = LocalScheduleObject(**kwargs)
            self.app.add_object(self.sched)
        except Exception as e:
            self.sched = None
            self.construct_error = repr(e)
        self.samples = []       # (t, observed value, eval result | exception)
        self.cur_cfg = cfg

    def sample(self, due):
        if abs(clock.now - due) > 1e-3:
            self.w.probe('sample_skipped_after_stall')
            return
        s = self.sched
        pv = s.presentValue.value if s.presentValue is not None else None
        rel = str(s.reliability)
        armed = bool(s._task.isScheduled)
        ev = None
        try:
            d = Date()
            d.now(clock.now)
            t = Time()
            t.now(clock.now)
            r = s._task.eval(d.value, t.value)
            if r is None:
                ev = ('none',)
            else:
                ev = ('ok', r[0].value if r[0] is not None else None, tuple(r[1]))
        except Exception as e:
            ev = ('exc', type(e).__name__)
        tgt = self.target.presentValue if self.target is not None else None
        self.samples.append((clock.now, pv, ev, rel, armed, tgt, self.cur_cfg))

    def do_rewrite(self, rw):
        cfg = copy.deepcopy(self.cur_cfg)
        if rw['what'] == 'weekly':
            cfg['weekly'] = rw['weekly']
            self.cur_cfg = cfg
            self.w.log('rewrite', 'weekly')
            self.sched.weeklySchedule = build_weekly(cfg)
        else:
            cfg['exceptions'] = rw['exceptions']
            self.cur_cfg = cfg
            self.w.log('rewrite', 'exceptions')
            self.sched.exceptionSchedule = ArrayOf(SpecialEvent)(build_exceptions(cfg))

    def run(self):
        w = self.w
        desc = self.desc
        for t in desc['sample_times']:
            w.at(t - 0.0, self.sample, self.t_start + t)
        for st in desc.get('stalls', []):
            w.at(st['t'], self._stall, st['d'])
        for rw in desc.get('rewrites', []):
            w.at(rw['t'], self.do_rewrite, rw)
        res = w.run(until=desc['horizon'])
        self.armed_at_end = bool(self.sched._task.isScheduled) if self.sched is not None else False
        self.errors = list(errlog.records)
        tm.tasks = []
        core.deferredFns = []
        return res

    def _stall(self, d):
        self.w.probe('stall')
        self.w.stall(d)


# ------------------------------------------------------------------ oracle

def check(desc, run, res):
    out = []
    seen = set()
    cfg0 = desc['cfg']

    def viol(clause, what, detail, **sig):
        if (clause, what) in seen:
            return
        seen.add((clause, what))
        s = {'kind': what, 'open_start': cfg0['effective'][0][:3] == [255, 255, 255], 'nexc': len(cfg0['exceptions'])}
        s.update(sig)
        out.append({'clause': clause, 'detail': detail, 'sigkey': what, 'sig': s})

    if run.construct_error:
        viol('C20.a', 'construct', 'schedule object could not be constructed: %s' % run.construct_error)
        return out
    if res == 'budget':
        viol('C20.c', 'budget', 'run exceeded its tick budget')
        return out
    stalls = [(run.t_start + st['t'], run.t_start + st['t'] + st['d']) for st in desc.get('stalls', [])]
    rewrites = [run.t_start + rw['t'] for rw in desc.get('rewrites', [])]
    for (t, pv, ev, rel, armed, tgt, cfg) in run.samples:
        if rel != 'noFaultDetected':
            # the generator builds valid configurations only (atomic default, values of the default's type or Null, specific
            # times, priorities 1..16, a local target of the right type): an object that declares one of them faulty stops
            # evaluating it, i.e. does not show the value the calendar dictates
            run.w.probe('config_rejected_by_object')
            viol('C20.a', 'valid-config-rejected', 'the schedule object declares reliability %s for a valid configuration (exception priorities %r) and does not evaluate it'
                 % (rel, sorted(e['priority'] for e in cfg['exceptions'])), rel=rel)
            return out
        dt = datetime.datetime(1970, 1, 1) + datetime.timedelta(seconds=t)
        ref = ref_value(cfg, dt)
        when = dt.strftime('%Y-%m-%d %a %H:%M:%S.%f')[:-4]
        # C20.a -- presentValue at the sampled instant
        want = cfg['default'] if ref == 'OUT' else ref
        if ref == 'OUT':
            # outside the effective period BACnet prescribes no value: the schedule is simply not in effect;
            # nothing is asserted about presentValue there (only that the interpreter survives: C20.c)
            pass
        elif pv != want:
            pattern = _classes(cfg)
            viol('C20.a', 'present-value', 'at %s presentValue is %r, the calendar dictates %r (effective %r, %d exceptions, pattern classes %s)'
                 % (when, pv, want, cfg['effective'], len(cfg['exceptions']), pattern), classes=pattern)
        elif run.target is not None and ref != 'OUT' and tgt is not None and float(tgt) != float(want) and not any(abs(t - r) < 1.0 for r in rewrites):
            viol('C20.a', 'target-not-written', 'at %s the referenced object holds %r, the schedule value is %r' % (when, tgt, want))
        # C20.b -- the next transition reported by eval() is not too late
        if ev is not None and ev[0] == 'exc':
            viol('C20.b', 'eval-raised', 'eval() at %s raised %s' % (when, ev[1]))
        elif ev is not None and ev[0] == 'none':
            if ref != 'OUT':
                viol('C20.a', 'eval-none-inside-period', 'eval() at %s says "not in effective period" but %r covers that date' % (when, cfg['effective']))
        elif ev is not None and ev[0] == 'ok':
            if ref == 'OUT':
                viol('C20.a', 'eval-value-outside-period', 'eval() at %s returned %r although the date is outside the effective period %r' % (when, ev[1], cfg['effective']))
            else:
                if ev[1] != want:
                    viol('C20.a', 'eval-value', 'eval() at %s returned %r, the calendar dictates %r' % (when, ev[1], want), classes=_classes(cfg))
                nxt = ev[2]
                tod = (dt.hour, dt.minute, dt.second, dt.microsecond // 10000)
                if nxt <= tod:
                    viol('C20.b', 'next-transition-not-in-future', 'eval() at %s reports next transition %r which is not after the evaluated time' % (when, nxt))
                else:
                    for cp in change_points(cfg):
                        if tod < cp < nxt:
                            dt2 = datetime.datetime(dt.year, dt.month, dt.day, cp[0], cp[1], cp[2], cp[3] * 10000)
                            if ref_value(cfg, dt2) != ref:
                                viol('C20.b', 'next-transition-too-late', 'eval() at %s reports next transition %r but the value changes from %r to %r already at %r'
                                     % (when, nxt, ref, ref_value(cfg, dt2), cp), classes=_classes(cfg))
                                break
        # C20.c -- the interpreter stays armed (also outside the effective period, so that it can re-enter)
        if not armed and not any(a - 1e-6 <= t <= b + 1e-6 for (a, b) in stalls):
            viol('C20.c', 'not-armed', 'at %s the schedule interpreter is no longer armed (%s the effective period %r)' % (when, 'outside' if ref == 'OUT' else 'inside', cfg['effective']),
                 outside=(ref == 'OUT'))
    if not run.armed_at_end:
        viol('C20.c', 'not-armed-at-end', 'the schedule interpreter is not armed at the end of the run')
    return out


def _classes(cfg):
    cl = set()
    for ex in cfg['exceptions']:
        p = ex['period']
        ents = cfg['calendar'] if p['kind'] == 'calref' else [p]
        for e in ents or []:
            if e['kind'] == 'date':
                y, m, d, w = e['date']
                cl.add('date')
                if m in (13, 14):
                    cl.add('odd/even-month')
                if d == 32:
                    cl.add('last-day')
                if d in (33, 34):
                    cl.add('odd/even-day')
                if w != 255:
                    cl.add('dow')
            elif e['kind'] == 'range':
                cl.add('range' + ('-open' if ANY[:3] in (e['start'][:3], e['end'][:3]) else ''))
            else:
                cl.add('weeknday')
        if p['kind'] == 'calref':
            cl.add('calref')
    return sorted(cl)


def execute_desc(desc):
    run = Run(desc)
    if run.construct_error:
        res = 'quiescent'
        run.errors = []
    else:
        res = run.run()
    v = check(desc, run, res)
    w = run.w
    import hashlib
    dig = hashlib.sha256(repr([(s[0], s[1], s[2], s[4]) for s in run.samples]).encode()).hexdigest()
    return {'violations': v, 'digest': dig, 'events_tail': [[str(s[0]), str(s[1]), str(s[2]), str(s[4])] for s in run.samples[-20:]],
            'probes': dict(w.probes), 'sim': w.sim_seconds, 'errors': run.errors, 'nsamples': len(run.samples)}


# ------------------------------------------------------------------ generator

def d4(d):
    return [d.year - 1900, d.month, d.day, d.isoweekday()]


def gen_times(rng, n):
    ts = set()
    while len(ts) < n:
        ts.add((rng.choice([0, 0, 6, 8, 12, 17, 23, rng.randint(0, 23)]), rng.choice([0, 0, 30, 59, rng.randint(0, 59)]), rng.choice([0, 0, 0, 59, rng.randint(0, 59)]), 0))
    return [list(t) for t in sorted(ts)]


def gen_tv(rng, n, vals):
    return [[t, rng.choice(vals + [None])] for t in gen_times(rng, n)]


def gen_entry(rng, day0, ndays):
    """calendar entry biased to match some of the days the run visits"""
    d = day0 + datetime.timedelta(days=rng.randint(0, max(0, ndays - 1)))
    k = rng.choice(['date', 'date', 'range', 'weeknday'])
    if k == 'date':
        pat = d4(d)
        for i in range(4):
            if rng.random() < 0.4:
                pat[i] = 255
        u = rng.random()
        if u < 0.15:
            pat[1] = 13 if d.month % 2 else 14
        elif u < 0.2:
            pat[1] = rng.choice([13, 14])
        u = rng.random()
        if u < 0.12:
            pat[2] = 32
        elif u < 0.3:
            pat[2] = rng.choice([33, 34])
        return {'kind': 'date', 'date': pat}
    if k == 'range':
        a = d - datetime.timedelta(days=rng.randint(0, 5))
        b = d + datetime.timedelta(days=rng.randint(0, 5))
        start, end = d4(a), d4(b)
        u = rng.random()
        if u < 0.2:
            start = list(ANY)
        elif u < 0.4:
            end = list(ANY)
        elif u < 0.45:
            start, end = list(ANY), list(ANY)
        return {'kind': 'range', 'start': start, 'end': end}
    last = calendar.monthrange(d.year, d.month)[1]
    # the codes counted from the END of the month (6..9) depend on the month's length: pick the one that contains d, or a neighbour
    from_end = 6 + (last - d.day) // 7
    wk = rng.choice([255, (d.day - 1) // 7 + 1, min(from_end, 9), min(from_end, 9), min(max(6, from_end + rng.choice([-1, 1])), 9), rng.randint(1, 9)])
    m = rng.choice([255, d.month, 13 if d.month % 2 else 14, rng.choice([13, 14])])
    return {'kind': 'weeknday', 'wnd': [m, wk, rng.choice([255, 255, d.isoweekday(), rng.randint(1, 7)])]}


def gen_desc(seed, idx):
    rng = rng_for(seed, 'C20', idx)
    # (a running clock before 1970 is not a realistic deployment: Time.now() mis-computes hundredths for negative epoch seconds)
    year = rng.randint(1990, 2099) if rng.random() < 0.6 else rng.randint(1970, 2154)
    month = rng.randint(1, 12)
    # bias toward month ends, leap days, year ends
    day = rng.choice([1, 15, 26, 27, 28, calendar.monthrange(year, month)[1]])
    day = min(day, calendar.monthrange(year, month)[1])
    if rng.random() < 0.2:
        # leap days, and the century years that are NOT leap years
        year = rng.choice([1972, 1996, 2000, 2024, 2096, 2100, 2100, 2100, 2104])
        month, day = 2, rng.choice([1, 7, 14, 21, 27])
    start_dt = datetime.datetime(year, month, day, rng.randint(0, 23), rng.randint(0, 59), rng.randint(0, 59))
    ndays = rng.randint(3, 40) if rng.random() < 0.3 else rng.randint(3, 8)
    # BACnet dates end on 2154-12-31 (year octet 254; 255 is the wildcard): a run must not cross into 2155
    last = datetime.datetime(2154, 12, 31, 0, 0, 0) - datetime.timedelta(days=ndays + 2)
    if start_dt > last:
        start_dt = last.replace(hour=start_dt.hour, minute=start_dt.minute, second=start_dt.second)
    day0 = start_dt.date()
    real = rng.random() < 0.3
    vals = [1, 2, 3, 4, 7]
    # effective period: open-ended, or with an edge inside the run
    u = rng.random()
    eff = [list(ANY), list(ANY)]
    if u < 0.25:
        eff[0] = d4(day0 + datetime.timedelta(days=rng.randint(1, max(1, ndays - 1))))         # entered during the run
    elif u < 0.5:
        eff[1] = d4(day0 + datetime.timedelta(days=rng.randint(0, max(1, ndays - 2))))         # left during the run
    elif u < 0.6:
        a = rng.randint(1, max(1, ndays // 2))
        eff = [d4(day0 + datetime.timedelta(days=a)), d4(day0 + datetime.timedelta(days=a + rng.randint(0, 3)))]
    elif u < 0.7:
        eff = [d4(day0 - datetime.timedelta(days=400)), d4(day0 + datetime.timedelta(days=4000))]
    weekly = None
    if rng.random() < 0.85:
        weekly = [gen_tv(rng, rng.randint(0, 4), vals) for _ in range(7)]
    exceptions = []
    prios = rng.sample(range(1, 17), 4)
    calendar_entries = None
    for k in range(rng.randint(0, 4)):
        if rng.random() < 0.2:
            if calendar_entries is None:
                # (an empty calendar is legal: the exception is then never in force)
                calendar_entries = [gen_entry(rng, day0, ndays) for _ in range(rng.choice([0, 1, 1, 2, 3]))]
            period = {'kind': 'calref'}
        else:
            period = gen_entry(rng, day0, ndays)
        tvs = gen_tv(rng, rng.randint(0, 4), vals)
        if rng.random() < 0.5:
            tvs = [[[0, 0, 0, 0], rng.choice(vals)]] + [x for x in tvs if x[0] != [0, 0, 0, 0]]
        exceptions.append({'period': period, 'priority': prios[k], 'tv': tvs})
    if weekly is None and not exceptions:
        weekly = [gen_tv(rng, rng.randint(0, 4), vals) for _ in range(7)]
    cfg = {'real': real, 'default': 9, 'effective': eff, 'weekly': weekly, 'exceptions': exceptions, 'calendar': calendar_entries,
           'target': real and rng.random() < 0.6}
    # sample instants: every minute (+0.5 s) of a few sampled days, +-0.75 s around every change point of every day, noon of every day
    horizon = ndays * DAY
    t0 = start_dt.hour * 3600 + start_dt.minute * 60 + start_dt.second
    samples = set()
    cps = change_points(cfg)
    for dn in range(ndays + 1):
        base = dn * DAY - t0
        for cp in cps:
            s = cp[0] * 3600 + cp[1] * 60 + cp[2]
            for off in (-0.75, 0.75):
                x = base + s + off
                if 1.0 < x < horizon:
                    samples.add(round(x, 2))
        x = base + 12 * 3600 + 0.5
        if 1.0 < x < horizon:
            samples.add(round(x, 2))
    for dn in rng.sample(range(ndays), min(ndays, 2)):
        base = dn * DAY - t0
        for mi in range(0, 1440, rng.choice([1, 1, 7])):
            x = base + mi * 60 + 0.5
            if 1.0 < x < horizon:
                samples.add(round(x, 2))
    d = {'prop': 'C20', 'seed': H(seed, 'C20run', idx) & 0x7fffffff, 'start': calendar.timegm(start_dt.timetuple()), 'cfg': cfg,
         'sample_times': sorted(samples), 'horizon': horizon, 'ndays': ndays, 'stalls': [], 'rewrites': []}
    if rng.random() < 0.25:
        for _ in range(rng.randint(1, 2)):
            d['stalls'].append({'t': round(rng.random() * horizon * 0.9, 2) + 0.31, 'd': rng.choice([30.0, 3600.0, 7200.0, 90000.0])})
    if rng.random() < 0.2:
        tt = round(rng.random() * horizon * 0.8, 2) + 0.17
        if rng.random() < 0.5:
            d['rewrites'].append({'t': tt, 'what': 'weekly', 'weekly': [gen_tv(rng, rng.randint(0, 4), vals) for _ in range(7)]})
        elif exceptions:
            newex = copy.deepcopy(exceptions)
            for ex in newex:
                ex['tv'] = gen_tv(rng, rng.randint(0, 4), vals)
            d['rewrites'].append({'t': tt, 'what': 'exceptions', 'exceptions': newex})
        # sample right after the rewrite
        for (rw) in d['rewrites']:
            d['sample_times'] = sorted(set(d['sample_times']) | {round(rw['t'] + 0.05, 2)})
        # change points of the new configuration
    return d


def run_unit(unit):
    agg = Agg()
    for idx in range(unit['start'], unit['start'] + unit['count']):
        d = gen_desc(unit['seed'], idx)
        r = execute_desc(d)
        agg.evals += 1
        agg.sim_seconds += r['sim']
        for k, v in r['probes'].items():
            agg.stat(('fault.' if k == 'stall' else 'probe.') + k, v)
        for e in r['errors']:
            agg.stat('looperr.%s:%s:%s' % (e[1], e[2], e[3]))
        agg.stat('probe.samples', r['nsamples'])
        agg.stat('probe.virtual_days', d['ndays'])
        for c in _classes(d['cfg']):
            agg.stat('probe.class_' + c)
        eff = d['cfg']['effective']
        agg.stat('probe.effective_%s_%s' % ('open' if eff[0][:3] == ANY[:3] else 'start', 'open' if eff[1][:3] == ANY[:3] else 'end'))
        if d['rewrites']:
            agg.stat('fault.schedule_rewritten_mid_run')
        agg.sigs.add(H(d['start'], repr(d['cfg']), repr(d['stalls']), repr(d['rewrites'])))
        if len(agg.samples) < 2 and len(d['sample_times']) < 400:
            dd = copy.deepcopy(d)
            dd['sample_times'] = dd['sample_times'][:10] + ['...%d more' % (len(d['sample_times']) - 10)]
            agg.samples.append({'desc': dd, 'samples_tail': r['events_tail'][-6:]})
        for v in r['violations']:
            agg.violation(v, d)
    return agg.result()


def units(tier, seed):
    n = 8000 if tier == 'thorough' else 800
    return [{'kind': 'explore', 'seed': seed, 'start': k * 6, 'count': 6} for k in range(n)]


def selftest_descs(tier, seed):
    return [gen_desc(seed, 14000003 + i) for i in range(3)]


def simplify(desc):
    cfg = desc['cfg']
    if cfg.get('weekly'):
        d = copy.deepcopy(desc)
        d['cfg']['weekly'] = [[] for _ in range(7)]
        yield d
    if cfg.get('target'):
        d = copy.deepcopy(desc)
        d['cfg']['target'] = False
        yield d
    for i, ex in enumerate(cfg['exceptions']):
        if ex['tv']:
            d = copy.deepcopy(desc)
            d['cfg']['exceptions'][i]['tv'] = ex['tv'][:1]
            if d != desc:
                yield d


SHRINK_LISTS = [('cfg', 'exceptions'), ('stalls',), ('rewrites',)]


def evidence(tier, seed, total):
    return {
        'level': LEVEL,
        'coverage': {
            'rule': '[additions: calendars may be empty; a valid configuration that the object declares faulty is a violation; runs end before 2155-01-01, the last BACnet date being 2154-12-31] Each run: a LocalScheduleObject (Unsigned or Real values) inside an application with a LocalDeviceObject whose clock is the virtual clock, optional CalendarObject '
                    '(calendar-reference periods) and target object; seeded configuration (effective period open-ended / entered / left / both during the run; 0-4 weekly entries per day; '
                    '0-4 exceptions with distinct priorities, date / date-range / week-n-day / calendar-reference periods incl. odd/even month, last/odd/even day, week-of-month and open '
                    'ranges, 0-4 ascending time-values each incl. Null) and a seeded start instant in 1970-2154 (60% in 1990-2099) biased to month ends, leap days, the non-leap century February of 2100 and year ends; virtual time runs 3-40 days with '
                    'the interpreter armed and re-armed by the real scheduler. Sampled at +-0.75 s around every configured time-value and every midnight of every day, at noon of every '
                    'day and every minute (+0.5 s) of two sampled days; at each sample the present value, eval()\'s value and its reported next transition are compared with an independent '
                    'interpreter. 25% of runs stall the loop (30 s - 25 h), 20% rewrite the weekly or exception schedule mid-run. Distinct = distinct (start, configuration, faults) tuples; '
                    'every run is non-trivial (>= 3 virtual days of timer-driven evaluation).',
            'components_real': ['local.schedule.LocalScheduleObject / LocalScheduleInterpreter (eval, process_task, matchers)', 'local.device.LocalDeviceObject (localDate/localTime)',
                                'primitivedata.Date/Time.now', 'object.CalendarObject', 'task.TaskManager', 'core.run_once/deferred'],
            'components_stub': ['wall clock (virtual, starts at the seeded calendar instant; TZ=UTC)'],
        },
        'assumptions': ['the reference interpreter in bacsim/props/c20.py is a correct reading of clause 12.24', 'time-values inside one list ascend and exceptions have distinct priorities (the standard leaves the rest to interpretation)',
                        'the generator builds valid configurations only; an object that declares one of them faulty is a violation', 'outside the effective period no present value is asserted, only that the interpreter stays alive and armed',
                        'samples that became due while the loop was stalled are skipped (staleness during a stall is expected)', 'no wall-clock steps (not in the property\'s quantifier)',
                        'the exhaustive 1900..2154 calendar sweep of the matchers is a pure-function enumeration and not claimed; the matchers are reached through the dates the runs visit'],
    }
