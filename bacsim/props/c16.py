"""
C16 -- COV subscribers are told of every qualifying change, and only while
subscribed.  A device stack with analog (increment), binary, multi-state and
pulse-converter objects serves seeded timelines of subscribe / renew / cancel
from 1..3 real subscriber stacks interleaved with local value and status-flag
changes (sub-increment steps, returns, bursts within one instant), virtual
time running across every expiry; a subscription / notification timeline
monitor is the oracle, notifications are decoded from the device's emitted
frames by the harness' own decoder.
"""

import copy
import math
import struct

from .. import env, wire
from ..env import clock, tm, errlog
from ..world import World, H
from ..driver import Agg
from ..txngen import rng_for, stack_cfg
from ..stacks import VlanStack, SimDevice, VENDOR

import bacpypes.core as core
from bacpypes.app import Application, ApplicationIOController
from bacpypes.pdu import Address
from bacpypes.object import AnalogValueObject, BinaryValueObject, MultiStateValueObject, PulseConverterObject
from bacpypes.service.object import ReadWritePropertyServices
from bacpypes.service.cov import ChangeOfValueServices
from bacpypes.apdu import SubscribeCOVRequest, SimpleAckPDU, ReadPropertyRequest, ReadPropertyACK, ConfirmedCOVNotificationRequest, \
    UnconfirmedCOVNotificationRequest, Error, RejectPDU, AbortPDU
from bacpypes.basetypes import COVSubscription
from bacpypes.constructeddata import ListOf

ID = 'C16'
LEVEL = 'exploration'
BUDGET = {'quick': 55, 'thorough': 780}
SHRINK_LISTS = [('faults', 'list'), ('ops',)]

DEV = 20
OBJ_TYPES = {'av': ('analogValue', 2), 'bv': ('binaryValue', 5), 'msv': ('multiStateValue', 19), 'pc': ('pulseConverter', 24)}
INCREMENT = {'av': 1.0, 'pc': 2.0}


class DevApp(ApplicationIOController, ReadWritePropertyServices, ChangeOfValueServices):
    _startup_disabled = True

    def __init__(self, world, cfg, device):
        ApplicationIOController.__init__(self, device)
        self.world = world
        self.label = cfg['name']


class SubApp(Application):
    """subscriber: records notifications, acknowledges confirmed ones"""
    _startup_disabled = True

    def __init__(self, world, cfg, device):
        Application.__init__(self, device)
        self.world = world
        self.label = cfg['name']
        self.confs = []
        self.notes = []
        self.alive = True

    def do_ConfirmedCOVNotificationRequest(self, apdu):
        self.world.log('note_c', self.label, apdu.subscriberProcessIdentifier, str(apdu.monitoredObjectIdentifier), apdu.timeRemaining)
        self.notes.append((self.world.now, 'c', apdu.subscriberProcessIdentifier))
        self.response(SimpleAckPDU(context=apdu))

    def do_UnconfirmedCOVNotificationRequest(self, apdu):
        self.world.log('note_u', self.label, apdu.subscriberProcessIdentifier, str(apdu.monitoredObjectIdentifier), apdu.timeRemaining)
        self.notes.append((self.world.now, 'u', apdu.subscriberProcessIdentifier))

    def confirmation(self, apdu):
        self.world.log('sub_conf', self.label, getattr(apdu, 'apduInvokeID', None), type(apdu).__name__)
        self.confs.append((self.world.seq, self.world.now, apdu))


def f32(x):
    return struct.unpack('!f', struct.pack('!f', x))[0]


class Run:
    def __init__(self, desc):
        self.desc = desc
        w = World(desc['seed'], faults=desc.get('faults'), frame_cap=60000, tick_cap=900000,
                  latency=desc.get('latency', 0.0), jitter=desc.get('jitter', 0.0))
        self.w = w
        lan = w.new_network('lan')
        self.dev = VlanStack(w, stack_cfg('dev', DEV, 'server', retries=desc.get('retries', 1), tout=desc.get('tout', 1000), tseg=500), lan, app_class=DevApp)
        self.objs = {}
        for key in desc['objects']:
            t, n = OBJ_TYPES[key]
            if key == 'av':
                o = AnalogValueObject(objectIdentifier=(t, 1), objectName='av', presentValue=0.0, statusFlags=[0, 0, 0, 0], covIncrement=INCREMENT['av'])
            elif key == 'bv':
                o = BinaryValueObject(objectIdentifier=(t, 1), objectName='bv', presentValue='inactive', statusFlags=[0, 0, 0, 0])
            elif key == 'msv':
                o = MultiStateValueObject(objectIdentifier=(t, 1), objectName='msv', presentValue=1, statusFlags=[0, 0, 0, 0], numberOfStates=5)
            else:
                o = PulseConverterObject(objectIdentifier=(t, 1), objectName='pc', presentValue=0.0, statusFlags=[0, 0, 0, 0], covIncrement=INCREMENT['pc'], covPeriod=0)
            self.dev.app.add_object(o)
            self.objs[key] = o
        self.subs = {}
        for i in range(desc['nsubs']):
            s = VlanStack(w, stack_cfg('s%d' % i, 1 + i, 'client', retries=1, tout=1000, tseg=500), lan, app_class=SubApp)
            self.subs[i] = s
        self.sent = []      # (seq, t, op index, sub, invoke)
        self.changes = []   # (seq, t, op index)

    def do_op(self, i, op):
        w = self.w
        k = op['op']
        if k in ('subscribe', 'cancel'):
            s = self.subs[op['sub']]
            t, n = OBJ_TYPES[op['obj']]
            r = SubscribeCOVRequest(subscriberProcessIdentifier=op['proc'], monitoredObjectIdentifier=(t, 1))
            if k == 'subscribe':
                r.issueConfirmedNotifications = op['confirmed']
                if op.get('lifetime') is not None:
                    r.lifetime = op['lifetime']
            r.pduDestination = Address(DEV)
            seq = w.log('op', i, k, op['sub'], op['proc'], op['obj'])
            try:
                s.app.request(r)
                self.sent.append((seq, w.now, i, op['sub'], r.apduInvokeID))
            except Exception as e:
                w.log('op_exc', i, type(e).__name__)
        elif k == 'burst':
            seq = w.log('op', i, 'burst', op['obj'], repr(op['writes'])[:60])
            self.changes.append((seq, w.now, i))
            o = self.objs[op['obj']]
            for (prop, val) in op['writes']:
                if prop == 'pv':
                    o.presentValue = val
                else:
                    o.statusFlags = list(val)
        elif k == 'read_active':
            s = self.subs[op['sub']]
            r = ReadPropertyRequest(objectIdentifier=('device', 1000 + DEV), propertyIdentifier='activeCovSubscriptions')
            r.pduDestination = Address(DEV)
            seq = w.log('op', i, 'read_active', op['sub'])
            try:
                s.app.request(r)
                self.sent.append((seq, w.now, i, op['sub'], r.apduInvokeID))
            except Exception as e:
                w.log('op_exc', i, type(e).__name__)
        elif k == 'crash':
            w.log('op', i, 'crash', op['sub'])
            w.probe('crash')
            self.subs[op['sub']].crash()
        else:
            raise ValueError(k)

    def run(self):
        for i, op in enumerate(self.desc['ops']):
            self.w.at(op['t'], self.do_op, i, op)
        res = self.w.run(until=self.desc['horizon'])
        self.errors = list(errlog.records)
        tm.tasks = []
        core.deferredFns = []
        return res


# ------------------------------------------------------------------ independent decoding of notifications

def decode_notification(apdu_data):
    """(proc, object (type, inst), timeRemaining, {propid: value bytes}) from the service data of a COV notification"""
    tags = wire.parse_tags(apdu_data)
    it = iter(tags)
    out = {'values': {}}
    depth = 0
    cur_prop = None
    i = 0
    while i < len(tags):
        num, cls, kind, data = tags[i]
        if depth == 0 and cls == 1 and kind == 'prim':
            if num == 0:
                out['proc'] = int.from_bytes(data, 'big')
            elif num == 1:
                pass
            elif num == 2:
                v = int.from_bytes(data, 'big')
                out['obj'] = (v >> 22, v & 0x3fffff)
            elif num == 3:
                out['rem'] = int.from_bytes(data, 'big')
        elif cls == 1 and kind == 'open':
            depth += 1
        elif cls == 1 and kind == 'close':
            depth -= 1
        elif depth == 1 and cls == 1 and kind == 'prim' and num == 0:
            cur_prop = int.from_bytes(data, 'big')
        elif depth == 2 and cls == 0 and cur_prop is not None:
            out['values'][cur_prop] = (num, data)
        i += 1
    return out


P_PV, P_FLAGS = 85, 111


def value_of(objkey, tagval):
    num, data = tagval
    if objkey in ('av', 'pc'):
        return struct.unpack('!f', data)[0]
    return int.from_bytes(data, 'big')     # enumerated (binary) / unsigned (multi-state)


def flags_of(tagval):
    num, data = tagval
    unused = data[0]
    bits = []
    for b in data[1:]:
        for k in range(8):
            bits.append((b >> (7 - k)) & 1)
    return bits[:len(bits) - unused] if unused else bits


def model_value(objkey, v):
    if objkey == 'bv':
        return {'inactive': 0, 'active': 1}[v]
    if objkey in ('av', 'pc'):
        return f32(v)
    return v


# ------------------------------------------------------------------ the monitor

def check(desc, run, res):
    out = []
    seen = set()
    w = run.w

    def viol(clause, what, detail, **sig):
        if (clause, what) in seen:
            return
        seen.add((clause, what))
        s = {'kind': what}
        s.update(sig)
        out.append({'clause': clause, 'detail': detail, 'sigkey': what, 'sig': s})

    if res == 'budget':
        viol('C16.b', 'budget', 'run exceeded its frame/tick budget')
        return out
    strict = not desc.get('relaxed')
    dead = {}
    for i, op in enumerate(desc['ops']):
        if op['op'] == 'crash':
            dead[op['sub']] = op['t']
    # ---- device emissions: acks for subscribe/cancel requests, notifications
    addr_sub = {str(1 + i): i for i in range(desc['nsubs'])}
    emitted = []        # (seq, t, sub, kind 'c'|'u', decoded)
    acks = {}           # (sub, invoke) -> (seq, t, type)
    for f in w.tx:
        if f['node'] != 'dev':
            continue
        n = wire.decode_npdu(f['octets'])
        if n is None or n['netmsg']:
            continue
        a = wire.decode_apdu(n['apdu'])
        if a is None:
            continue
        sub = addr_sub.get(f['dst'])
        if a['type'] == wire.T_UNCONF and a['service'] == 2:
            emitted.append((f['seq'], f['t'], sub, 'u', decode_notification(a['data']), None))
        elif a['type'] == wire.T_CONF and a['service'] == 1 and not a['seg']:
            emitted.append((f['seq'], f['t'], sub, 'c', decode_notification(a['data']), a['invoke']))
        elif a['type'] in (wire.T_SACK, wire.T_ERROR, wire.T_REJECT, wire.T_ABORT, wire.T_CACK) and sub is not None:
            acks.setdefault((sub, a['invoke']), []).append((f['seq'], f['t'], a['name'], a))
    # retransmissions of a confirmed notification (same invoke id, same content) count once
    dedup = []
    seen_c = set()
    for e in emitted:
        if e[3] == 'c':
            k = (e[2], e[5], repr(e[4]))
            if k in seen_c:
                continue
            seen_c.add(k)
        dedup.append(e)
    emitted = dedup
    # ---- timeline of causes in processing order
    events = []
    for (seq, t, i, sub, inv) in run.sent:
        op = desc['ops'][i]
        a = [x for x in acks.get((sub, inv), []) if x[0] > seq]
        if op['op'] in ('subscribe', 'cancel'):
            if not a:
                if strict and sub not in dead:
                    viol('C16.a', 'no-ack', 'op #%d %r: the SubscribeCOV request was not answered' % (i, _s(op)), op=op['op'])
                continue
            aseq, at, aname, ahdr = a[0]
            if aname != 'sack':
                if op['op'] == 'subscribe' or strict:
                    viol('C16.a', 'subscribe-refused', 'op #%d %r was answered with %s instead of an acknowledgement' % (i, _s(op), aname), op=op['op'], lifetime=op.get('lifetime'))
                continue
            events.append((aseq, at, op['op'], i))
            # a retried request (lost ack) is processed again: every further ack is another processing
            for (aseq2, at2, aname2, ah2) in a[1:]:
                if aname2 == 'sack':
                    events.append((aseq2, at2, op['op'], i))
        else:
            events.append((seq, t, 'read', (i, sub, inv)))
    for (seq, t, i) in run.changes:
        events.append((seq, t, 'burst', i))
    events.sort(key=lambda x: x[0])
    # ---- model
    subs = {}       # (sub, proc, obj) -> dict(confirmed, expiry, last)
    state = {}
    last_obj = {}
    for key in desc['objects']:
        state[key] = {'pv': model_value(key, {'av': 0.0, 'bv': 'inactive', 'msv': 1, 'pc': 0.0}[key]), 'flags': [0, 0, 0, 0]}
        last_obj[key] = None
    expected = {}   # subscription key -> list of expectation dicts
    ambiguous = set()   # subscriptions with an edge tie: not judged

    def live(k, t):
        s = subs.get(k)
        return s is not None and (s['expiry'] is None or t < s['expiry'] - 1e-6)

    def expire(t):
        for k in [k for k, s in subs.items() if s['expiry'] is not None and s['expiry'] <= t + 1e-6]:
            if abs(subs[k]['expiry'] - t) <= 1e-6:
                ambiguous.add(k)
            del subs[k]

    def rem_range(k, t):
        s = subs[k]
        if s['expiry'] is None:
            return (0, 0)
        rem = s['expiry'] - t
        lo = max(1, int(math.floor(rem - 1e-6)))
        hi = max(1, int(math.ceil(rem + 1e-6)))
        return (lo, hi)

    def expect(k, t, seq, why, objkey, lo=1, hi=1):
        expected.setdefault(k, []).append({'t': t, 'seq': seq, 'why': why, 'pv': state[objkey]['pv'], 'flags': list(state[objkey]['flags']),
                                            'confirmed': subs[k]['confirmed'], 'rem': rem_range(k, t), 'lo': lo, 'hi': hi})

    reads = []
    for (seq, t, kind, x) in events:
        expire(t)
        if kind == 'subscribe':
            op = desc['ops'][x]
            k = (op['sub'], op['proc'], op['obj'])
            lt = op.get('lifetime')
            subs[k] = {'confirmed': bool(op['confirmed']), 'expiry': (t + lt) if lt else None}
            expect(k, t, seq, 'initial(op #%d)' % x, op['obj'])
            last_obj[op['obj']] = state[op['obj']]['pv']
        elif kind == 'cancel':
            op = desc['ops'][x]
            subs.pop((op['sub'], op['proc'], op['obj']), None)
        elif kind == 'burst':
            op = desc['ops'][x]
            objkey = op['obj']
            st = state[objkey]
            nq = 0
            for (prop, val) in op['writes']:
                if prop == 'pv':
                    nv = model_value(objkey, val)
                    if objkey in INCREMENT:
                        ref = last_obj[objkey] if last_obj[objkey] is not None else st['pv']
                        if abs(nv - ref) >= INCREMENT[objkey] - 1e-9 and nv != st['pv']:
                            nq += 1
                    elif nv != st['pv']:
                        nq += 1
                    st['pv'] = nv
                else:
                    if list(val) != st['flags']:
                        nq += 1
                    st['flags'] = list(val)
            if nq:
                for k in sorted(subs):
                    if k[2] == objkey and live(k, t):
                        expect(k, t, seq, 'change(op #%d)' % x, objkey, 1, nq)
                        last_obj[objkey] = st['pv']
        elif kind == 'read':
            reads.append((seq, t, x, {k: dict(v) for k, v in subs.items()}))
    if not strict:
        # retried requests (lossy / jitter modes) can be processed in the very instant of another cause for the same
        # subscription; which of the two a notification of that instant answers is then not decidable from the wire
        for k, E in expected.items():
            for i in range(1, len(E)):
                if abs(E[i]['t'] - E[i - 1]['t']) <= 1e-6:
                    ambiguous.add(k)
                    w.probe('c16-same-instant-causes-relaxed')
    # ---- compare per subscription, in order
    obs = {}
    for (seq, t, sub, kind, d, inv) in emitted:
        objkey = next((kk for kk, (tn, code) in OBJ_TYPES.items() if d.get('obj') == (code, 1)), None)
        obs.setdefault((sub, d.get('proc'), objkey), []).append((seq, t, kind, d))
    for k in sorted(set(expected) | set(obs), key=repr):
        E = expected.get(k, [])
        O = obs.get(k, [])
        sub_dead = k[0] in dead
        if k in ambiguous:
            continue
        if not E:
            viol('C16.c', 'never-subscribed', 'the device emitted %d notification(s) for %r which never held a subscription' % (len(O), k))
            continue
        oi = 0
        for e in E:
            objkey = k[2]
            # notifications caused in this instant (strict: emitted at the same virtual instant; otherwise: the next ones in order)
            got = []
            while oi < len(O) and len(got) < e['hi']:
                o = O[oi]
                if strict and abs(o[1] - e['t']) > 1e-6 and len(got) >= e['lo']:
                    break
                if o[1] < e['t'] - 1e-6:
                    viol('C16.c', 'unexpected-notification', 'notification for %r emitted at t=%.3f that no subscribe/renew or qualifying change accounts for (next expected cause: %s at t=%.3f)'
                         % (k, o[1], e['why'], e['t']))
                    oi += 1
                    continue
                # a notification later than the next expected cause belongs to that one
                nxt = E[E.index(e) + 1] if E.index(e) + 1 < len(E) else None
                if nxt is not None and o[1] >= nxt['t'] - 1e-6 and len(got) >= e['lo'] and o[1] > e['t'] + 1e-6:
                    break
                got.append(o)
                oi += 1
            if len(got) < e['lo']:
                if sub_dead and e['t'] >= dead[k[0]] - 2.0:
                    continue
                if not strict:
                    continue
                clause = 'C16.a' if e['why'].startswith('initial') else 'C16.b'
                viol(clause, 'missing-notification:' + e['why'].split('(')[0], 'subscription %r: no notification for %s at t=%.3f (emitted for it so far: %d, expected %d)'
                     % (k, e['why'], e['t'], len(got), e['lo']), why=e['why'].split('(')[0], confirmed=e['confirmed'])
                continue
            last = got[-1]
            d = last[3]
            if (last[2] == 'c') != e['confirmed']:
                viol('C16.d' if e['why'].startswith('initial') else 'C16.b', 'wrong-kind', 'subscription %r: %s notification for %s, the subscription asked for %s'
                     % (k, 'confirmed' if last[2] == 'c' else 'unconfirmed', e['why'], 'confirmed' if e['confirmed'] else 'unconfirmed'))
            try:
                pv = value_of(objkey, d['values'][P_PV])
                fl = flags_of(d['values'][P_FLAGS])
            except Exception as ex:
                viol('C16.b', 'undecodable', 'subscription %r: notification for %s could not be decoded: %r' % (k, e['why'], ex))
                continue
            if strict and (pv != e['pv'] or fl != e['flags']):
                viol('C16.b', 'stale-values', 'subscription %r: notification for %s carries present-value %r flags %r, current values are %r %r'
                     % (k, e['why'], pv, fl, e['pv'], e['flags']))
            if strict and not (e['rem'][0] <= d.get('rem', -1) <= e['rem'][1]):
                viol('C16.b' if not e['why'].startswith('initial') else 'C16.d', 'time-remaining', 'subscription %r: notification for %s at t=%.3f carries timeRemaining %r, expected %d..%d'
                     % (k, e['why'], e['t'], d.get('rem'), e['rem'][0], e['rem'][1]))
        for o in O[oi:]:
            if sub_dead:
                continue
            # queued confirmed notifications may leave late; anything else after the last cause is unaccounted for
            viol('C16.c', 'unexpected-notification', 'notification for %r emitted at t=%.3f after its last expected cause (%s at t=%.3f): cancelled / expired subscription still served?'
                 % (k, o[1], E[-1]['why'], E[-1]['t']))
            break
    # ---- activeCovSubscriptions
    for (seq, t, (i, sub, inv), snapshot) in reads:
        if sub in dead:
            continue
        s = run.subs[sub]
        conf = [c for c in s.app.confs if c[0] > seq and getattr(c[2], 'apduInvokeID', None) == inv]
        if not conf:
            if strict and sub not in dead:
                viol('C16.e', 'read-unanswered', 'op #%d: ReadProperty(activeCovSubscriptions) was not answered' % i)
            continue
        apdu = conf[0][2]
        if not isinstance(apdu, ReadPropertyACK):
            if not strict and isinstance(apdu, AbortPDU):
                continue        # the subscriber's own stack gave up (frame loss)
            viol('C16.e', 'read-refused', 'op #%d: ReadProperty(activeCovSubscriptions) at t=%.3f answered %s (live subscriptions in the model: %d)'
                 % (i, t, type(apdu).__name__ + ':' + str(getattr(apdu, 'errorCode', getattr(apdu, 'apduAbortRejectReason', ''))), len(snapshot)), n=min(len(snapshot), 2))
            continue
        try:
            lst = apdu.propertyValue.cast_out(ListOf(COVSubscription))
        except Exception as ex:
            viol('C16.e', 'read-undecodable', 'op #%d: activeCovSubscriptions could not be decoded: %r' % (i, ex))
            continue
        got = set()
        rems = {}
        for cs in lst:
            mac = bytes(cs.recipient.recipient.address.macAddress)
            kk = (mac[0] - 1 if mac else None, cs.recipient.processIdentifier, next((kk2 for kk2, (tn, code) in OBJ_TYPES.items() if cs.monitoredPropertyReference.objectIdentifier[0] == tn), None))
            got.add((kk, bool(cs.issueConfirmedNotifications)))
            rems[kk] = cs.timeRemaining
        want = set((k, v['confirmed']) for k, v in snapshot.items() if k not in ambiguous and (v['expiry'] is None or abs(v['expiry'] - t) > 1e-3))
        edge = set(k for k, v in snapshot.items() if k in ambiguous or (v['expiry'] is not None and abs(v['expiry'] - t) <= 1e-3))
        got_cmp = set(g for g in got if g[0] not in edge)
        if strict and got_cmp != want:
            viol('C16.e', 'active-list-mismatch', 'op #%d at t=%.3f: activeCovSubscriptions lists %r, the live subscriptions are %r' % (i, t, sorted(got_cmp, key=repr), sorted(want, key=repr)),
                 extra=len(got_cmp - want) > 0)
        elif strict:
            for k, v in snapshot.items():
                if k in edge or k not in rems:
                    continue
                if v['expiry'] is None:
                    lo, hi = 0, 0
                else:
                    rem = v['expiry'] - t
                    lo, hi = max(1, int(math.floor(rem - 1e-6))), max(1, int(math.ceil(rem + 1e-6)))
                if not (lo <= rems[k] <= hi):
                    viol('C16.e', 'active-list-time-remaining', 'op #%d at t=%.3f: subscription %r listed with timeRemaining %r, expected %d..%d' % (i, t, k, rems[k], lo, hi))
    return out


def _s(op):
    return {k: v for k, v in op.items() if k != 't'}


def execute_desc(desc):
    run = Run(desc)
    res = run.run()
    v = check(desc, run, res)
    w = run.w
    return {'violations': v, 'digest': w.digest(), 'events_tail': [list(map(str, e)) for e in w.events[-120:] if e[2] in ('op', 'note_c', 'note_u', 'sub_conf', 'op_exc')][-30:],
            'probes': dict(w.probes), 'sim': w.sim_seconds, 'faults': dict(w.plan.counts), 'errors': run.errors}


# ------------------------------------------------------------------ generator

def gen_desc(seed, idx):
    rng = rng_for(seed, 'C16', idx)
    nsubs = rng.randint(1, 3)
    objects = rng.sample(['av', 'bv', 'msv', 'pc'], rng.randint(1, 3))
    mode = rng.choice(['strict', 'strict', 'strict', 'jitter', 'dead', 'lossy'])
    ops = []
    t = 0.5
    # subscriptions: an increment object is held by at most one subscription at a time (see evidence assumptions)
    holders = {}
    nsteps = rng.randint(4, 40)
    subs_made = []
    for _ in range(nsteps):
        t += rng.choice([0.07, 0.13, 0.37, 1.29, 2.71, 7.43, 19.07, 33.31])
        t = round(t, 3)
        u = rng.random()
        if u < 0.25 or not subs_made:
            objkey = rng.choice(objects)
            sub = rng.randrange(nsubs)
            proc = rng.choice([1, 1, 2, 7])
            if objkey in INCREMENT:
                if objkey in holders and holders[objkey] != (sub, proc):
                    sub, proc = holders[objkey]
                holders[objkey] = (sub, proc)
            lifetime = rng.choice([0, 0, 1, 2, 5, 10, 30, 60, 120, None])
            ops.append({'t': t, 'op': 'subscribe', 'sub': sub, 'proc': proc, 'obj': objkey, 'confirmed': rng.random() < 0.5, 'lifetime': lifetime})
            subs_made.append((sub, proc, objkey))
        elif u < 0.33:
            sub, proc, objkey = rng.choice(subs_made)
            ops.append({'t': t, 'op': 'cancel', 'sub': sub, 'proc': proc, 'obj': objkey})
        elif u < 0.90:
            objkey = rng.choice(objects)
            k = rng.choice([1, 1, 1, 2, 3])
            writes = []
            for _w in range(k):
                if rng.random() < 0.8:
                    if objkey in INCREMENT:
                        inc = INCREMENT[objkey]
                        val = f32(rng.choice([0.0, 0.25 * inc, 0.5 * inc, inc, -inc, 1.5 * inc, 2 * inc, 3.25 * inc, 0.999 * inc, 10.0]))
                    elif objkey == 'bv':
                        val = rng.choice(['active', 'inactive'])
                    else:
                        val = rng.randint(1, 4)
                    writes.append(['pv', val])
                else:
                    writes.append(['flags', rng.choice([[0, 0, 0, 0], [1, 0, 0, 0], [0, 1, 0, 1], [0, 0, 1, 0]])])
            ops.append({'t': t, 'op': 'burst', 'obj': objkey, 'writes': writes})
        else:
            ops.append({'t': t, 'op': 'read_active', 'sub': rng.randrange(nsubs)})
    d = {'prop': 'C16', 'seed': H(seed, 'C16run', idx) & 0x7fffffff, 'nsubs': nsubs, 'objects': objects, 'ops': ops, 'horizon': round(t + 140.0, 1), 'mode': mode}
    if mode == 'jitter':
        d['latency'] = 0.001
        d['jitter'] = rng.choice([0.002, 0.05])
        d['relaxed'] = True
    elif mode == 'dead':
        # a dead subscriber with confirmed notifications must not starve the others
        victim = rng.randrange(nsubs)
        d['ops'].append({'t': round(rng.random() * t, 3) + 0.011, 'op': 'crash', 'sub': victim})
        d['ops'].sort(key=lambda o: o['t'])
    elif mode == 'lossy':
        d['faults'] = {'mode': 'hashed', 'rates': {'drop': rng.choice([0.05, 0.2])}, 'salt': rng.randrange(1 << 30)}
        d['relaxed'] = True
    return d


def run_unit(unit):
    agg = Agg()
    for idx in range(unit['start'], unit['start'] + unit['count']):
        d = gen_desc(unit['seed'], idx)
        r = execute_desc(d)
        agg.evals += 1
        agg.sim_seconds += r['sim']
        for k, v in r['faults'].items():
            agg.stat('fault.' + k, v)
        for k, v in r['probes'].items():
            agg.stat(('fault.' if k == 'crash' else 'probe.') + k, v)
        for e in r['errors']:
            agg.stat('looperr.%s:%s:%s' % (e[1], e[2], e[3]))
        agg.stat('probe.mode_' + d['mode'])
        for op in d['ops']:
            agg.stat('probe.op_' + op['op'])
        agg.sigs.add(H(d['nsubs'], tuple(d['objects']), d['mode'], tuple((o['op'], o['t'], o.get('sub'), o.get('obj'), repr(o.get('writes')), o.get('lifetime')) for o in d['ops'])))
        if len(agg.samples) < 2 and len(d['ops']) < 12:
            agg.samples.append({'desc': d, 'events_tail': r['events_tail'][-12:]})
        for v in r['violations']:
            agg.violation(v, d)
    return agg.result()


def units(tier, seed):
    n = 12000 if tier == 'thorough' else 3000
    return [{'kind': 'explore', 'seed': seed, 'start': k * 12, 'count': 12} for k in range(n)]


def selftest_descs(tier, seed):
    return [gen_desc(seed, 13000003 + i) for i in range(4)]


def evidence(tier, seed, total):
    return {
        'level': LEVEL,
        'coverage': {
            'rule': 'Each run: a device stack (ApplicationIOController + ChangeOfValueServices) with 1-3 of {analog-value (increment 1.0), binary-value, multi-state-value, pulse-converter '
                    '(increment 2.0, period 0)} and 1-3 real subscriber stacks; 4-40 timed steps of subscribe / renew (confirmed or unconfirmed, lifetimes 0, 1..120 s or absent) / cancel, '
                    'local changes of present value and status flags incl. sub-increment steps, exact-increment steps, returns to the old value and bursts of 1-3 writes in one instant, '
                    'ReadProperty of activeCovSubscriptions; virtual time runs 140 s past the last step so every lifetime elapses. Modes: strict (no faults), jitter (delays / reordering), '
                    'dead (one subscriber crashes: confirmed notifications to it time out, the others are judged strictly), lossy (frame loss, relaxed oracle). Notifications are taken '
                    'from the frames the DEVICE emits (harness decoder), so in-flight frames do not count against it. Distinct = distinct (configuration, op list) tuples; every run is non-trivial.',
            'components_real': ['service.cov.ChangeOfValueServices / Subscription / COVDetection / COVIncrementCriteria / GenericCriteria / PulseConverterCriteria / ActiveCOVSubscriptions',
                                'service.detect (property monitors, deferred execution)', 'app.ApplicationIOController (per-subscriber notification queues)', 'iocb', 'appservice', 'object.py', 'task.TaskManager', 'core.run_once/deferred'],
            'components_stub': ['wall clock', 'LAN fault layer'],
        },
        'assumptions': ['the subscription/notification monitor in bacsim/props/c16.py is correct', 'a burst of k changes inside one instant must yield between 1 and (number of qualifying changes) notifications, the last carrying the final values (the implementation coalesces to one)',
                        'an increment object is held by at most one subscription at a time, so "last reported value" per object and per subscriber coincide',
                        'a subscription whose lifetime ends (or which is created) in the very instant of an operation is not judged', 'timeRemaining may be floor or ceiling of the remaining time, 1 if below 1 s, 0 for indefinite',
                        'in jitter / lossy modes only: nothing for a subscription that never existed, nothing unexpected after the last cause'],
    }
