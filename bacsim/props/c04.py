"""
C04 -- a confirmed request ends in exactly one outcome, in bounded time, no
residue.  Fault enumeration (all single / double fault placements over a grid
of cells) + seeded exploration (hashed multi-fault plans, silence, crash /
restart, stalls, clock steps, IOCB cancel / timeout, slow applications).
"""

import copy

from .. import txn, txngen, wire
from ..driver import Agg, sig_hash
from ..stacks import TOK_BASE
from ..txngen import rng_for, stack_cfg, boundary_lengths
from ..world import H

ID = 'C04'
LEVEL = 'fault_enumeration'
BUDGET = {'quick': 55, 'thorough': 780}
SHRINK_LISTS = [('faults', 'list'), ('timed',), ('ops',), ('housekeeping',)]

OUTCOME_KINDS = ('ack', 'sack', 'cack', 'error', 'reject', 'abort')


# ------------------------------------------------------------------ oracle

def bound_B(h, r):
    """Generous bound on the time from activation to outcome, computed from
    the run's own knobs (separates 'bounded' from 'never / unbounded')."""
    c = h.cfgs[r.c]
    s = h.cfgs[r.s]
    N = c['retries']
    t_out = max(c['tout'], s['tout']) / 1000.0
    t_seg = max(c['tseg'], s['tseg']) / 1000.0
    segsz = min(c['maxApdu'], s['maxApdu'])
    s_req = txn.seg_count(txn.pt_service_len(r.rq), segsz)
    s_resp = txn.seg_count(txn.pt_service_len(r.rs), segsz)
    app_t = s.get('app_timeout', 3000) / 1000.0
    B = (N + 1) * (t_out + (s_req + s_resp + 2) * (max(N, s['retries']) + 1) * 4 * t_seg)
    B += min(r.slow or 0.0, app_t) + app_t
    B += h.w.total_delay_injected + h.w.frames * (h.w.latency + h.w.jitter)
    for (seq, t, kind, node) in h.timed_fired:
        pass
    B += sum(abs(tf.get('d', 0.0)) for tf in h.desc.get('timed', []) if tf['kind'] in ('stall', 'jump'))
    return B


def event_time(h, seq):
    # events are appended in seq order, seq starts at 1
    return h.w.events[seq - 1][1]


def check(h):
    """Evaluate C04.a-d over a recorded history.  Returns list of violations."""
    out = []
    w = h.w
    desc = h.desc
    has_jump_back = any(tf['kind'] in ('jump',) and tf['d'] < 0 for tf in desc.get('timed', []))

    if h.result == 'budget':
        out.append({'clause': 'C04.b', 'detail': 'run did not terminate within the frame/tick budget (%s) at t=%.3f after %d frames'
                    % (w.budget_hit, w.now, w.frames), 'sigkey': 'budget',
                    'sig': {'kind': 'budget', 'cap': w.budget_hit, 'max_segments': _max_segments(h)}})
        return out

    # per client stack: requests queued to the same peer (IOCB) accumulate bounds
    queue_bound = {}
    for r in h.reqs:
        if r.c not in h.cfgs:
            continue
        outs = txn.outcomes_of(h, r)
        sigbase = {'mode': r.mode, 'cancelled': r.cancel_seq is not None,
                   'timed': sorted(set(tf['kind'] for tf in desc.get('timed', [])))}
        if r.exc is not None and not outs:
            out.append({'clause': 'C04.a', 'detail': 'submit of tok=%x raised %s and no outcome was delivered' % (r.tok, r.exc),
                        'sigkey': 'submit-raised:' + r.exc.split(':')[0], 'sig': dict(sigbase, kind='submit-raised', exc=r.exc.split(':')[0])})
            continue
        if len(outs) != 1:
            out.append({'clause': 'C04.a', 'detail': 'request tok=%x (%s, invoke=%s, rq=%d rs=%d) got %d outcomes: %r'
                        % (r.tok, r.mode, r.invoke, r.rq, r.rs, len(outs), [(o[0], o[2], o[3]) for o in outs][:4]),
                        'sigkey': 'n=%d:%s' % (min(len(outs), 2), r.mode), 'sig': dict(sigbase, kind='count', n=min(len(outs), 2))})
            if not outs:
                continue
        o = outs[0]
        okind = o[2]
        if okind not in OUTCOME_KINDS:
            if not (r.mode == 'iocb' and okind == 'exc' and (r.cancel_seq is not None or r.iotimeout is not None)):
                out.append({'clause': 'C04.a', 'detail': 'request tok=%x outcome of unexpected kind %r %r' % (r.tok, okind, o[3]),
                            'sigkey': 'kind:' + str(okind), 'sig': dict(sigbase, kind='outcome-kind', okind=okind)})
        # C04.b
        if not has_jump_back and r.act0 is not None:
            B = bound_B(h, r)
            key = (r.c, r.peer) if r.mode == 'iocb' else None
            t_act = event_time(h, r.act0)
            took = o[1] - t_act
            if took > B + 1e-6:
                out.append({'clause': 'C04.b', 'detail': 'request tok=%x outcome %s after %.3fs, bound %.3fs' % (r.tok, okind, took, B),
                            'sigkey': 'late', 'sig': dict(sigbase, kind='late')})
        # C04.d
        if r.invoke is not None and r.cancel_seq is None and not (r.mode == 'iocb' and okind == 'exc'):
            reuse = None
            for q in h.reqs:
                if q is not r and q.c == r.c and q.peer == r.peer and q.invoke == r.invoke and q.act0 is not None \
                        and q.act0 > r.act0:
                    if reuse is None or q.act0 < reuse:
                        reuse = q.act0
            for f in w.tx:
                if f['seq'] <= o[0] or f['node'] != r.c or f['dst'] != r.peer:
                    continue
                if reuse is not None and f['seq'] >= reuse:
                    break
                n, a = txn.decode_lan_frame(f['octets'])
                if a is None or a.get('invoke') != r.invoke:
                    continue
                t = a['type']
                if t == wire.T_CONF or (t == wire.T_SEGACK and not a['srv']) or (t == wire.T_ABORT and not a['srv']):
                    out.append({'clause': 'C04.d', 'detail': 'client %s emitted %s for (peer %s, invoke %d) at seq %d after its outcome %s at seq %d'
                                % (r.c, a['name'], r.peer, r.invoke, f['seq'], okind, o[0]),
                                'sigkey': 'post:' + a['name'], 'sig': dict(sigbase, kind='post-outcome', frame=a['name'], okind=okind)})
                    break

    # C04.b the scheduler that drives every timeout: its next entry must be the earliest pending one
    sv = getattr(w, 'sched_viol', None)
    if sv:
        out.append({'clause': 'C04.b', 'detail': 'at t=%.3f the scheduler is about to wait %.3fs for its next entry although a %s is due in %.3fs (%d entries pending): '
                    'that timer will fire late' % (sv['t'], sv['head_due_in'], sv['buried'], sv['earliest_due_in'], sv['entries']),
                    'sigkey': 'scheduler-head-not-earliest', 'sig': {'kind': 'scheduler-head-not-earliest', 'buried': sv['buried']}})
    # C04.c timers of finished transactions, inspected in the instant of every outcome
    for tr in getattr(h, 'timer_residue', [])[:1]:
        out.append({'clause': 'C04.c', 'detail': 'at t=%.3f (outcome at seq %d) the scheduler still holds the timer of a %s %s (peer %s, invoke %s), due in %.3fs'
                    % (tr['t'], tr['seq'], tr['state'], tr['cls'], tr['peer'], tr['invoke'], tr['due_in']),
                    'sigkey': 'timer-of-finished-transaction', 'sig': {'kind': 'timer-of-finished-transaction', 'cls': tr['cls'], 'state': tr['state']}})
    # C04.c residue at quiescence
    if h.result != 'quiescent':
        out.append({'clause': 'C04.c', 'detail': 'world not quiescent at horizon: heap still holds %r' % (h.heap_left,),
                    'sigkey': 'not-quiescent', 'sig': {'kind': 'not-quiescent', 'heap': sorted(h.heap_left)}})
    for name in sorted(h.stacks):
        st = h.stacks[name]
        if st.node.dead:
            continue
        res = st.residue()
        if res:
            out.append({'clause': 'C04.c', 'detail': 'stack %s holds residue at quiescence: %r' % (name, res),
                        'sigkey': 'residue:' + ','.join(sorted(res)), 'sig': {'kind': 'residue', 'what': sorted(res),
                                                                               'role': st.cfg.get('role')}})
    return out


def _max_segments(h):
    m = 0
    for r in h.reqs:
        c = h.cfgs.get(r.c)
        s = h.cfgs.get(r.s)
        if not c or not s:
            continue
        segsz = min(c['maxApdu'], s['maxApdu'])
        m = max(m, txn.seg_count(txn.pt_service_len(r.rq), segsz), txn.seg_count(txn.pt_service_len(r.rs), segsz))
    return '>256' if m > 256 else '<=256'


def execute_desc(desc):
    h = txn.execute(desc)
    v = check(h)
    return {'violations': v, 'digest': h.w.digest(), 'events_tail': [list(map(str, e)) for e in h.w.events[-40:]],
            'h': None}


def freeze(desc):
    f = desc.get('faults') or {}
    if f.get('mode') != 'hashed':
        return None
    h = txn.execute(desc)
    d = copy.deepcopy(desc)
    d['faults'] = h.w.plan.frozen()
    return d


def simplify(desc):
    """Numeric simplifications tried after list minimisation."""
    # delays -> smaller, latency/jitter -> 0, lengths -> smaller
    net = desc.get('net', {})
    if net.get('jitter') or net.get('latency'):
        d = copy.deepcopy(desc)
        d['net'] = {'latency': 0.0, 'jitter': 0.0}
        yield d
    for i, op in enumerate(desc.get('ops', [])):
        if op.get('op') != 'req':
            continue
        for fld in ('rq', 'rs'):
            if op[fld] > 0:
                for newv in (0, op[fld] // 2):
                    if newv != op[fld]:
                        d = copy.deepcopy(desc)
                        d['ops'][i][fld] = newv
                        yield d
        if op.get('slow'):
            d = copy.deepcopy(desc)
            d['ops'][i]['slow'] = 0.0
            yield d
        if op['t'] > 0:
            d = copy.deepcopy(desc)
            d['ops'][i]['t'] = 0.0
            yield d


# ------------------------------------------------------------------ enumeration tier

SIZE_PAIRS = {'uu': (10, 10), 'su': (230, 10), 'us': (10, 230), 'ss': (230, 230)}
# both sides of the first segmentation boundary at max-APDU 50 (service data 46 fits unsegmented, 47 does not) and of the 2/3-segment boundary
_B = txngen.payload_len_for_service_len
BOUNDARY_PAIRS = {'b46-46': (_B(46), _B(46)), 'b47-46': (_B(47), _B(46)), 'b46-47': (_B(46), _B(47)), 'b47-47': (_B(47), _B(47)),
                  'b88-89': (_B(88), _B(89)), 'b89-88': (_B(89), _B(88))}
SIZE_PAIRS.update(BOUNDARY_PAIRS)
SEG_COMBOS = {  # (client, server) segmentation support
    'both': ('segmentedBoth', 'segmentedBoth'),
    'tx-rx': ('segmentedTransmit', 'segmentedReceive'),
    'rx-tx': ('segmentedReceive', 'segmentedTransmit'),
    'none': ('noSegmentation', 'noSegmentation'),
}
FAULT_KINDS_SINGLE = [('drop', {}), ('dup', {'gap': 0.0}), ('dup', {'gap': 'tout'}),
                      ('delay', {'d': 0.001}), ('delay', {'d': 'tseg'}), ('delay', {'d': 'tout'}),
                      ('delay', {'d': '2tout'})]
FAULT_KINDS_PAIR = [('drop', {}), ('dup', {'gap': 0.0}), ('delay', {'d': 'tout'})]


def cell_desc(seed, cell):
    sz, win, retries, segc, mode = cell['size'], cell['win'], cell['retries'], cell['seg'], cell.get('mode', 'direct')
    rq, rs = SIZE_PAIRS[sz]
    cs, ss = SEG_COMBOS[segc]
    return {
        'prop': 'C04', 'scenario': 'txn', 'seed': seed,
        'stacks': [stack_cfg('c0', 1, 'client', maxApdu=50, win=win, retries=retries, seg=cs, mode=mode),
                   stack_cfg('s0', 10, 'server', maxApdu=50, win=win, retries=retries, seg=ss)],
        'ops': [{'t': 0.0, 'op': 'req', 'c': 'c0', 's': 's0', 'tok': TOK_BASE + 1, 'rq': rq, 'rs': rs}],
        'faults': {'mode': 'explicit', 'list': []},
    }


def _mkfault(ordn, kind, params, tout=3.0, tseg=1.0):
    f = {'ord': ordn, 'kind': kind}
    for k, v in params.items():
        if v == 'tout':
            v = tout
        elif v == 'tseg':
            v = tseg
        elif v == '2tout':
            v = 2 * tout
        f[k] = v
    return f


def run_cell(unit, agg, checker, prop_id):
    """Enumerate every single fault (and optionally every pair) over every
    frame of the cell's transaction.  Shared with C05."""
    seed = unit['seed']
    base = unit['desc']
    pairs = unit.get('pairs', False)
    h0 = txn.execute(base)
    n0 = h0.w.frames
    _account(agg, h0, base, checker, trivial_ok=True)
    agg.cells += 1
    for i in range(n0):
        for kind, params in FAULT_KINDS_SINGLE:
            d1 = copy.deepcopy(base)
            d1['faults']['list'] = [_mkfault(i, kind, params)]
            h1 = txn.execute(d1)
            _account(agg, h1, d1, checker, single=True)
            if pairs and (kind, params) in FAULT_KINDS_PAIR:
                n1 = h1.w.frames
                for j in range(i + 1, n1):
                    for kind2, params2 in FAULT_KINDS_PAIR:
                        d2 = copy.deepcopy(d1)
                        d2['faults']['list'].append(_mkfault(j, kind2, params2))
                        h2 = txn.execute(d2)
                        _account(agg, h2, d2, checker)


def _account(agg, h, desc, checker, trivial_ok=False, single=False):
    agg.evals += 1
    agg.sim_seconds += h.w.sim_seconds
    fired = h.w.plan.counts
    for k, v in fired.items():
        agg.stat('fault.' + k, v)
    for k, v in h.w.probes.items():
        agg.stat('probe.' + k, v)
    for e in h.errors:
        agg.stat('looperr.%s:%s:%s' % (e[1], e[2], e[3]))
    nontrivial = bool(fired) or bool(h.timed_fired) or trivial_ok
    if nontrivial:
        agg.sigs.add(txngen.run_signature(h))
    if len(agg.samples) < 2 and (fired or trivial_ok):
        agg.samples.append({'desc': desc, 'trace': txngen.trace_sample(h, 30),
                            'outcomes': [[o[2], str(o[3])] for r in h.reqs for o in txn.outcomes_of(h, r)]})
    for r in h.reqs:
        for o in txn.outcomes_of(h, r):
            agg.stat('outcome.' + str(o[2]))
    for v in checker(h):
        agg.violation(v, desc)


# ------------------------------------------------------------------ exploration tier

def gen_desc(seed, idx):
    rng = rng_for(seed, 'C04', idx)
    maxapdu = rng.choice([50, 50, 50, 128, 206, 480])
    tout = rng.choice([1000, 3000, 6000])
    tseg = rng.choice([500, 1000, 2000])
    retries = rng.randint(0, 3)
    nserv = rng.randint(1, 3)
    mode = rng.choice(['direct', 'direct', 'iocb'])
    # many timers of mixed magnitude in the one scheduler: more peers, long I/O timeouts, the applications' own timers
    many_timers = rng.random() < 0.25
    if many_timers:
        nserv = rng.randint(3, 6)
        mode = rng.choice(['direct', 'iocb', 'iocb'])
    stacks = []

    def segsup():
        return 'segmentedBoth' if rng.random() < 0.75 else rng.choice(txngen.SEGS)
    stacks.append(stack_cfg('c0', 1, 'client', maxApdu=maxapdu, win=rng.randint(1, 8), retries=retries,
                            tout=tout, tseg=tseg, seg=segsup(), mode=mode,
                            maxSegs=rng.choice([2, 4, 8, 16, 32, 64, 64, 64])))
    for i in range(nserv):
        stacks.append(stack_cfg('s%d' % i, 10 + i, 'server', maxApdu=rng.choice([maxapdu, maxapdu, 50, 1024]),
                                win=rng.randint(1, 8), retries=rng.randint(0, 3), tout=tout, tseg=tseg, seg=segsup(),
                                app_timeout=rng.choice([3000, 3000, 1000]),
                                maxSegs=rng.choice([2, 4, 8, 16, 32, 64, 64, 64])))
    lens = boundary_lengths(maxapdu, 6) + [3, 10, 40]
    nreq = rng.randint(1, 12) if rng.random() < 0.7 else rng.randint(1, 3)
    ops = []
    t = 0.0
    for k in range(nreq):
        t += rng.choice([0.0, 0.0, 0.0, 0.01, 0.5, tout / 1000.0, rng.random() * 5])
        op = {'t': round(t, 4), 'op': 'req', 'c': 'c0', 's': 's%d' % rng.randrange(nserv), 'tok': TOK_BASE + k + 1,
              'rq': rng.choice(lens), 'rs': rng.choice(lens)}
        if rng.random() < 0.2:
            op['slow'] = rng.choice([0.1, tout / 1000.0 * 0.9, 1.5, 4.5, tout / 1000.0 + 0.001])
        if mode == 'iocb':
            if rng.random() < 0.15:
                op['iotimeout'] = rng.choice([0.001, 0.5, tout / 1000.0, 20.0])
            elif many_timers and rng.random() < 0.9:
                op['iotimeout'] = rng.choice([60.0, 300.0, 300.0])
        if rng.random() < 0.12:
            # the application submits a follow-up request to the same peer from inside the outcome callback of this one
            op['chain'] = {'op': 'req', 'c': 'c0', 's': op['s'] if rng.random() < 0.8 else 's%d' % rng.randrange(nserv), 'tok': TOK_BASE + 500 + k,
                           'rq': rng.choice([0, 3, 10, rng.choice(lens)]), 'rs': rng.choice([0, 3, 10, rng.choice(lens)])}
        ops.append(op)
        if mode == 'iocb' and rng.random() < 0.15:
            ops.append({'t': round(t + rng.choice([0.0, 0.001, 0.3, tout / 1000.0, 2.0]), 4), 'op': 'cancel',
                        'tok': op['tok']})
        if rng.random() < 0.1:
            # unconfirmed traffic to the peer that still owes the answer (or to another one)
            ops.append({'t': round(t + rng.choice([0.0, 0.0005, 0.2, 1.0]), 4), 'op': 'unconf', 'c': 'c0',
                        's': op['s'] if rng.random() < 0.7 else 's%d' % rng.randrange(nserv)})
    ops.sort(key=lambda o: o['t'])
    housekeeping = []
    if many_timers:
        housekeeping = [rng.choice([2.5, 7.0, 45.0, 300.0, 600.0, 900.0]) + round(rng.random(), 3) for _ in range(rng.randint(3, 10))]
    faults = txngen.fault_profile(rng, tout / 1000.0, tseg / 1000.0)
    timed = []
    if rng.random() < 0.3:
        tt = round(rng.random() * (t + 1.0), 4) if rng.random() < 0.5 else rng.choice(ops)['t'] + rng.choice([0.0, 0.0001, 0.5])
        kind = rng.choice(['silence', 'crash', 'crash+restart', 'stall', 'jump', 'silence+heal'])
        node = 's%d' % rng.randrange(nserv)
        if kind == 'silence':
            timed.append({'t': tt, 'kind': 'silence', 'node': node})
        elif kind == 'silence+heal':
            timed.append({'t': tt, 'kind': 'silence', 'node': node})
            timed.append({'t': tt + rng.choice([0.5, tout / 1000.0, 10.0]), 'kind': 'heal', 'node': node})
        elif kind == 'crash':
            timed.append({'t': tt, 'kind': 'crash', 'node': node})
        elif kind == 'crash+restart':
            timed.append({'t': tt, 'kind': 'crash', 'node': node})
            timed.append({'t': tt + rng.choice([0.0, 0.5, tout / 1000.0, 10.0]), 'kind': 'restart', 'node': node})
        elif kind == 'stall':
            timed.append({'t': tt, 'kind': 'stall', 'd': rng.choice([0.5, tseg / 1000.0, tout / 1000.0, 30.0])})
        else:
            timed.append({'t': tt, 'kind': 'jump', 'd': -rng.choice([0.5, tout / 1000.0, 30.0])})
    lat = rng.choice([0.0, 0.0, 0.001, 0.05])
    if many_timers:
        # some peers are dead from the start, the others far away: retry timers of the dead ones sit in the heap while
        # answers of the live ones cancel entries around them
        if rng.random() < 0.7:
            for node in rng.sample(['s%d' % i for i in range(nserv)], rng.randint(1, 2)):
                timed.append({'t': 0.0, 'kind': 'silence', 'node': node})
        lat = rng.choice([0.0, 0.05, 0.4, 0.9])
    return {'prop': 'C04', 'scenario': 'txn', 'seed': H(seed, 'C04run', idx) & 0x7fffffff, 'stacks': stacks,
            'net': {'latency': lat, 'jitter': rng.choice([0.0, 0.0, 0.002])},
            'ops': ops, 'faults': faults, 'timed': timed, 'housekeeping': housekeeping}


def run_unit(unit):
    agg = Agg()
    if unit['kind'] == 'cell':
        run_cell(unit, agg, check, ID)
    elif unit['kind'] == 'explore':
        for idx in range(unit['start'], unit['start'] + unit['count']):
            desc = gen_desc(unit['seed'], idx)
            h = txn.execute(desc)
            _account(agg, h, desc, check)
    return agg.result()


def cells(tier):
    out = []
    if tier == 'quick':
        grid = [(sz, win, ret, 'both', 'direct') for sz in ('uu', 'su', 'us', 'ss') for win in (1, 4) for ret in (0, 3)]
        grid += [(sz, 2, 1, 'both', 'direct') for sz in BOUNDARY_PAIRS]
        grid += [('ss', 2, 1, 'tx-rx', 'direct'), ('ss', 2, 1, 'rx-tx', 'direct'), ('uu', 2, 1, 'none', 'iocb'),
                 ('ss', 2, 3, 'both', 'iocb')]
    else:
        grid = [(sz, win, ret, sg, 'direct') for sz in ('uu', 'su', 'us', 'ss') for win in (1, 2, 4, 8) for ret in (0, 1, 3)
                for sg in SEG_COMBOS]
        grid += [(sz, win, ret, 'both', 'direct') for sz in BOUNDARY_PAIRS for win in (1, 3) for ret in (0, 2)]
        grid += [(sz, win, 1, 'both', 'iocb') for sz in ('uu', 'su', 'us', 'ss') for win in (1, 2, 4, 8)]
    for (sz, win, ret, sg, mode) in grid:
        out.append({'size': sz, 'win': win, 'retries': ret, 'seg': sg, 'mode': mode})
    return out


def units(tier, seed):
    us = []
    for i, cell in enumerate(cells(tier)):
        pairs = (tier == 'thorough' and cell['size'] in ('uu', 'su', 'us', 'ss')) or (cell['win'] == 4 and cell['retries'] == 0 and cell['size'] in ('su', 'us'))
        us.append({'kind': 'cell', 'must': True, 'seed': seed, 'cell': cell, 'desc': cell_desc(seed, cell), 'pairs': pairs})
    n_units = 4000 if tier == 'thorough' else 800
    per = 60
    for k in range(n_units):
        us.append({'kind': 'explore', 'seed': seed, 'start': k * per, 'count': per})
    return us


def selftest_descs(tier, seed):
    ds = [gen_desc(seed, 1000003 + i) for i in range(3)]
    d = cell_desc(seed, {'size': 'ss', 'win': 2, 'retries': 1, 'seg': 'both'})
    d['faults']['list'] = [{'ord': 3, 'kind': 'drop'}, {'ord': 7, 'kind': 'dup', 'gap': 3.0}]
    return ds + [d]


def evidence(tier, seed, total):
    return {
        'level': LEVEL,
        'coverage': {
            'rule': '[additions since the first version: unconfirmed requests to the peer that owes an answer; follow-up requests submitted from inside outcome callbacks; a many-timers variant (3-6 peers, 60-300 s I/O timeouts, idle application timers of 2.5-900 s, peers dead from the start, latencies up to 0.9 s); in-run invariants: scheduler head = earliest pending entry, no finished transaction in the scheduler at any outcome] Enumeration tier: for every cell of the grid {size pair uu/su/us/ss (10 or 230 octets at max-APDU 50)} x {window} x '
                    '{retries} x {segmentation-support combination} x {direct, IOCB}, the fault-free run, EVERY single fault '
                    '(drop, duplicate now, duplicate after T_out, delay 1ms / T_seg / T_out / 2*T_out) at EVERY frame index, and for the '
                    'cells marked pairs every pair (drop, duplicate, delay T_out) at indices i<j of the faulted run. Exploration tier: runs '
                    'generated from H(VERIF_SEED, index): 1-12 requests, 1-3 servers, direct or IOCB client, hashed multi-fault plans, '
                    'silence/crash/restart/stall/clock-step/cancel/timeout/slow-application. A run is non-trivial when at least one fault fired '
                    '(or it is the fault-free baseline of a cell); distinct = distinct abstract event sequences (frame roles, nodes, '
                    'fault kinds, outcomes; no times, no octets), counted with a set of hashes.',
            'enumerated_cells': total['cells'],
            'exhaustive': True,
            'exhaustive_scope': 'the enumerated single/double fault placements of the listed cells only; the exploration tier samples',
            'components_real': ['task.TaskManager', 'core.run_once', 'core.deferred', 'vlan.Network/Node delivery', 'appservice (SSM, ClientSSM, ServerSSM, SMAP, ASAP)',
                                'app.Application / ApplicationIOController / DeviceInfoCache', 'iocb (IOCB, IOQController, SieveQueue)',
                                'netservice.NetworkServiceAccessPoint', 'apdu/npdu/pdu codecs'],
            'components_stub': ['wall clock (virtual)', 'LAN fabric fault layer around the real vlan.Network.process_pdu', 'no sockets in this scenario'],
        },
        'assumptions': ['CPython semantics', 'the harness decoders (bacsim/wire.py) and outcome attribution are correct',
                        'all simulated nodes share one clock (process-wide TaskManager)',
                        'C04.b bound B is computed from the run\'s own knobs and is deliberately generous',
                        'C04.b is not evaluated on runs with a backward clock step',
                        'an application-side IOCB abort/timeout counts as that IOCB\'s outcome'],
    }
