"""
C17 -- a commandable value equals its highest-priority command or the default.
Each of the 20 *CmdObject classes of local/object.py is driven by seeded
command sequences (write / relinquish at priorities 1..16, invalid priorities,
time advanced across minimum on/off expiries) both through direct property
access and through WriteProperty / ReadProperty requests from a client stack
over a faulty LAN; a 16-slot reference array plus a slot-6 timer model is the
oracle.
"""

import copy
import itertools

from .. import env, wire
from ..env import clock, tm, errlog
from ..world import World, H
from ..driver import Agg
from ..txngen import rng_for, stack_cfg, fault_profile
from ..stacks import VlanStack, VENDOR
from . import c15
from .c15 import to_py, any_bytes, classify_response, DevApp, CliApp

import bacpypes.core as core
import bacpypes.local.object as lobj
from bacpypes.object import register_object_type
from bacpypes.pdu import Address
from bacpypes.primitivedata import Null, Real, Double, Unsigned, Integer, BitString, CharacterString, OctetString, Date, Time, Enumerated, Atomic
from bacpypes.basetypes import DateTime, BinaryPV, DoorValue
from bacpypes.constructeddata import Any
from bacpypes.apdu import ReadPropertyRequest, WritePropertyRequest, ReadPropertyACK, SubscribeCOVRequest
from bacpypes.service.cov import ChangeOfValueServices


class CovDevApp(DevApp, ChangeOfValueServices):
    """the device also offers SubscribeCOV: change-of-value detection hooks into the same present value the minimum
    on/off mechanism watches"""
    _startup_disabled = True

    def __init__(self, world, cfg, device):
        DevApp.__init__(self, world, cfg, device)
        ChangeOfValueServices.__init__(self)

ID = 'C17'
LEVEL = 'exploration'
BUDGET = {'quick': 50, 'thorough': 780}
SHRINK_LISTS = [('faults', 'list'), ('ops',)]

# class name -> (value kind, three-value domain as specs)
D_REAL = [['real', 1.0], ['real', 2.5], ['real', -3.0]]
D_UNS = [['uns', 1], ['uns', 2], ['uns', 3]]
CLASSES = {
    'AccessDoorCmdObject': ('enum', [['enum', 'lock'], ['enum', 'unlock'], ['enum', 'pulseUnlock']]),
    'AnalogOutputCmdObject': ('real', D_REAL),
    'AnalogValueCmdObject': ('real', D_REAL),
    'BinaryOutputCmdObject': ('enum', [['enum', 'active'], ['enum', 'inactive'], ['enum', 'active']]),
    'BinaryValueCmdObject': ('enum', [['enum', 'active'], ['enum', 'inactive'], ['enum', 'active']]),
    'BitStringValueCmdObject': ('bits', [['bits', [1, 0, 1]], ['bits', [0, 0]], ['bits', [1, 1, 1, 1, 0, 0, 0, 0, 1]]]),
    'CharacterStringValueCmdObject': ('str', [['str', 'alpha'], ['str', ''], ['str', 'gamma delta']]),
    'DateValueCmdObject': ('date', [['date', [120, 1, 15, 3]], ['date', [99, 12, 31, 5]], ['date', [124, 2, 29, 4]]]),
    'DatePatternValueCmdObject': ('date', [['date', [120, 1, 15, 3]], ['date', [255, 255, 255, 255]], ['date', [255, 13, 32, 255]]]),
    'DateTimeValueCmdObject': ('datetime', [['datetime', [[120, 1, 15, 3], [8, 30, 0, 0]]], ['datetime', [[99, 12, 31, 5], [23, 59, 59, 99]]], ['datetime', [[124, 2, 29, 4], [0, 0, 0, 0]]]]),
    'DateTimePatternValueCmdObject': ('datetime', [['datetime', [[120, 1, 15, 3], [8, 30, 0, 0]]], ['datetime', [[255, 255, 255, 255], [255, 255, 255, 255]]], ['datetime', [[124, 2, 29, 4], [0, 0, 0, 0]]]]),
    'IntegerValueCmdObject': ('int', [['int', -1], ['int', 0], ['int', 70000]]),
    'LargeAnalogValueCmdObject': ('double', [['double', 1.25], ['double', -2.5e10], ['double', 0.0]]),
    'LightingOutputCmdObject': ('real', D_REAL),
    'MultiStateOutputCmdObject': ('uns', D_UNS),
    'MultiStateValueCmdObject': ('uns', D_UNS),
    'OctetStringValueCmdObject': ('octets', [['octets', '0102'], ['octets', ''], ['octets', 'ffee00']]),
    'PositiveIntegerValueCmdObject': ('uns', D_UNS),
    'TimeValueCmdObject': ('time', [['time', [8, 30, 0, 0]], ['time', [23, 59, 59, 99]], ['time', [0, 0, 0, 0]]]),
    'TimePatternValueCmdObject': ('time', [['time', [8, 30, 0, 0]], ['time', [255, 255, 255, 255]], ['time', [12, 255, 0, 255]]]),
}
BINARY = ('BinaryOutputCmdObject', 'BinaryValueCmdObject')

_registered = {}


def get_class(name):
    cls = _registered.get(name)
    if cls is None:
        cls = type('V' + name, (getattr(lobj, name),), {})
        _registered[name] = cls
    register_object_type(cls, vendor_id=VENDOR)
    return cls


def py_value(spec):
    if spec is None:
        return ()
    if spec[0] == 'datetime':
        return DateTime(date=tuple(spec[1][0]), time=tuple(spec[1][1]))
    return to_py(spec)


def slot_bytes(kind, spec):
    """octets of one priority-array slot / of the present value, by the value kind (application tagged;
    a DateTime slot is the context-1 constructed choice)"""
    a = Any()
    if spec is None:
        a.cast_in(Null(()))
        return any_bytes(a)
    if kind == 'datetime':
        a.cast_in(Date(tuple(spec[1][0])))
        a.cast_in(Time(tuple(spec[1][1])))
        return any_bytes(a)
    cls = {'real': Real, 'double': Double, 'uns': Unsigned, 'int': Integer, 'bits': BitString, 'str': CharacterString, 'octets': OctetString,
           'date': Date, 'time': Time}.get(kind)
    if kind == 'enum':
        a.cast_in(Enumerated(_enum_number(spec)))
    else:
        a.cast_in(cls(to_py(spec)))
    return any_bytes(a)


_ENUMS = {'lock': 0, 'unlock': 1, 'pulseUnlock': 2, 'extendedPulseUnlock': 3, 'inactive': 0, 'active': 1}


def _enum_number(spec):
    return _ENUMS[spec[1]]


def pa_bytes(kind, slots):
    out = b''
    for s in slots:
        if s is not None and kind == 'datetime':
            out += wire.ctx_open(1) + slot_bytes(kind, s) + wire.ctx_close(1)
        else:
            out += slot_bytes(kind, s)
    return out


# ------------------------------------------------------------------ reference model

class Tie(Exception):
    """an operation is served in the same instant a hold timer expires: the order is not determined by the property"""


class Model:
    def __init__(self, kind, default, initial_pv, min_on=0, min_off=0, binary=False):
        self.kind = kind
        self.slots = [None] * 16
        self.default = default
        self.pv = initial_pv
        self.min_on = min_on
        self.min_off = min_off
        self.binary = binary
        self.timer = None       # expiry time of the slot-6 hold

    def advance(self, t):
        """fire the minimum on/off timer if it expired strictly before t"""
        while self.timer is not None:
            if abs(self.timer - t) < 1e-5:
                # (also a hold that was started by the release of the previous one and ends exactly now)
                raise Tie()
            if self.timer > t:
                break
            te = self.timer
            self.timer = None
            self.slots[5] = None
            self._recompute(te)

    def _recompute(self, t):
        new = next((s for s in self.slots if s is not None), self.default)
        if new != self.pv:
            self.pv = new
            if self.binary:
                hold = self.min_on if new[1] == 'active' else self.min_off
                if hold:
                    self.slots[5] = new
                    self.timer = t + hold

    def command(self, t, value, prio):
        """returns expected outcome"""
        self.advance(t)
        p = 16 if prio is None else prio
        if p == 0:
            return ('error', 'property', 'writeAccessDenied')
        if p < 1 or p > 16:
            return ('error', 'property', 'invalidArrayIndex')
        self.slots[p - 1] = value
        self._recompute(t)
        return ('ack',)


# ------------------------------------------------------------------ execution

class Run(c15.Run):
    """re-uses the C15 client/device plumbing; the device holds one commandable object"""

    def __init__(self, desc):
        self.desc = desc
        w = World(desc['seed'], faults=desc.get('faults'), frame_cap=40000, tick_cap=600000,
                  latency=desc.get('latency', 0.0), jitter=desc.get('jitter', 0.0))
        self.w = w
        lan = w.new_network('lan')
        self.direct = desc['mode'] == 'direct'
        if self.direct:
            # direct property access: no stacks needed, only an application to hold the object
            from bacpypes.app import Application
            from ..stacks import make_device
            self.dev = None
            self._app = Application(make_device({'name': 'dev', 'addr': 20}))
        else:
            self.dev = VlanStack(w, stack_cfg('dev', 20, 'server', retries=2, tout=2000, tseg=500), lan, app_class=CovDevApp if desc.get('cov') else DevApp)
            self._app = self.dev.app
        cls = get_class(desc['cls'])
        kind, dom = CLASSES[desc['cls']]
        kwargs = {'objectIdentifier': (cls.objectType, 1), 'objectName': 'cmd'}
        if desc.get('default') is not None:
            kwargs['relinquishDefault'] = py_value(desc['default'])
        if desc.get('pv0') is not None:
            kwargs['presentValue'] = py_value(desc['pv0'])
        if desc['cls'] in BINARY:
            kwargs['minimumOnTime'] = desc.get('min_on', 0)
            kwargs['minimumOffTime'] = desc.get('min_off', 0)
        self.construct_error = None
        try:
            self.obj = cls(**kwargs)
            self._app.add_object(self.obj)
        except Exception as e:
            self.obj = None
            self.construct_error = repr(e)
        self.objid = (cls.objectType, 1)
        self.direct_log = []
        if self.direct:
            return
        smap = self.dev.smap
        orig = smap.sap_confirmation

        def sap_confirmation(apdu, _orig=orig):
            seq = w.log('srv_resp', str(apdu.pduDestination), apdu.apduInvokeID, type(apdu).__name__, bytes(apdu.pduData).hex() if apdu.pduData else '')
            self.dev.app.srv_log.append(('resp', seq, str(apdu.pduDestination), apdu.apduInvokeID, apdu, w.now))
            _orig(apdu)
        smap.sap_confirmation = sap_confirmation
        self.clients = [VlanStack(w, stack_cfg('c0', 1, 'client', retries=2, tout=2000, tseg=500), lan, app_class=CliApp)]
        self.submitted = {}
        self.build_errors = []
        self.queues = [list(range(len(desc['ops'])))]
        self.clients[0].app.on_conf = (lambda apdu: self.next_op(0))
        self.direct_log = []

    def build_request(self, op):
        if op['op'] == 'cmd':
            r = WritePropertyRequest(objectIdentifier=self.objid, propertyIdentifier='presentValue')
            if op.get('prio') is not None:
                r.priority = op['prio']
            a = Any()
            if op['value'] is None:
                a.cast_in(Null(()))
            else:
                kind = CLASSES[self.desc['cls']][0]
                if kind == 'datetime':
                    a.cast_in(py_value(op['value']))
                elif kind == 'enum':
                    dt = self.obj._properties['presentValue'].datatype
                    a.cast_in(dt(op['value'][1]))
                else:
                    dt = self.obj._properties['presentValue'].datatype
                    a.cast_in(dt(to_py(op['value'])))
            r.propertyValue = a
        elif op['op'] == 'read':
            r = ReadPropertyRequest(objectIdentifier=self.objid, propertyIdentifier=op['prop'])
        elif op['op'] == 'cov':
            # subscribe (unconfirmed notifications, finite lifetime) or cancel
            r = SubscribeCOVRequest(subscriberProcessIdentifier=1, monitoredObjectIdentifier=self.objid)
            if op.get('lifetime') is not None:
                r.issueConfirmedNotifications = False
                r.lifetime = op['lifetime']
        else:
            raise ValueError(op['op'])
        r.pduDestination = Address(20)
        return r

    # ---- direct mode: same op list through direct property access, no wire
    def run_direct(self):
        w = self.w
        t = 0.0
        for i, op in enumerate(self.desc['ops']):
            t += op.get('gap', 0.0)
            w.at(t, self._direct_op, i, op)
        res = w.run(until=t + 60.0)
        self.errors = list(errlog.records)
        tm.tasks = []
        core.deferredFns = []
        return res

    def _direct_op(self, i, op):
        w = self.w
        if op['op'] == 'cmd':
            try:
                self.obj.WriteProperty('presentValue', py_value(op['value']), priority=op.get('prio'))
                out = ('ack',)
            except Exception as e:
                out = ('error', str(getattr(e, 'errorClass', type(e).__name__)), str(getattr(e, 'errorCode', e)))
            self.direct_log.append((w.now, i, out))
        else:
            v = self.obj.ReadProperty(op['prop'])
            a = Any()
            if op['prop'] == 'presentValue':
                dt = self.obj._properties['presentValue'].datatype
                a.cast_in(v if not issubclass(dt, Atomic) else dt(v))
            else:
                a.cast_in(v)
            self.direct_log.append((w.now, i, ('value', any_bytes(a))))
        w.log('direct', i, repr(self.direct_log[-1][2])[:80])


def make_model(desc):
    kind, dom = CLASSES[desc['cls']]
    binary = desc['cls'] in BINARY
    default = desc.get('default')
    pv0 = desc.get('pv0')
    if default is None:
        default = type_default(desc['cls'])
    # empty history: all sixteen slots are null => the present value is the relinquish default, unless the
    # application constructed the object with an explicit present value (its own choice of initial state,
    # which stands until the first command recomputes the value)
    m = Model(kind, default, pv0 if pv0 is not None else default, desc.get('min_on', 0), desc.get('min_off', 0), binary)
    return m


def type_default(clsname):
    kind = CLASSES[clsname][0]
    return {'real': ['real', 0.0], 'double': ['double', 0.0], 'uns': ['uns', 0], 'int': ['int', 0], 'bits': ['bits', []], 'str': ['str', ''],
            'octets': ['octets', ''], 'date': ['date', [255, 255, 255, 255]], 'time': ['time', [255, 255, 255, 255]],
            'datetime': ['datetime', [[255, 255, 255, 255], [255, 255, 255, 255]]],
            'enum': ['enum', 'lock' if 'Door' in clsname else 'inactive']}[kind]


def check(desc, run, res):
    out = []
    seen = set()

    def viol(clause, what, detail, **sig):
        if (clause, what) in seen:
            return
        seen.add((clause, what))
        s = {'kind': what, 'cls': desc['cls'], 'mode': desc['mode']}
        s.update(sig)
        out.append({'clause': clause, 'detail': '[%s, %s] %s' % (desc['cls'], desc['mode'], detail), 'sigkey': what, 'sig': s})

    if run.construct_error:
        viol('C17.a', 'construct', 'object could not be constructed with %r: %s' % ({k: desc.get(k) for k in ('default', 'pv0', 'min_on', 'min_off')}, run.construct_error))
        return out
    if res == 'budget':
        viol('C17.a', 'budget', 'run exceeded its budget')
        return out
    kind = CLASSES[desc['cls']][0]
    m = make_model(desc)
    # sequence of (time, op index, observed outcome)
    obs = []
    if desc['mode'] == 'direct':
        obs = run.direct_log
    else:
        log = run.dev.app.srv_log
        i = 0
        while i < len(log):
            e = log[i]
            if e[0] != 'ind':
                i += 1
                continue
            kind_, seq, peer, inv, apdu = e[:5]
            resp = None
            if i + 1 < len(log) and log[i + 1][0] == 'resp' and log[i + 1][2] == peer and log[i + 1][3] == inv:
                resp = log[i + 1]
                i += 2
            else:
                i += 1
            subs = [x for x in run.submitted.get((peer, inv), []) if x[0] < seq]
            if not subs:
                continue
            opi = subs[-1][1]
            t = run.w.events[seq - 1][1]
            if resp is None:
                viol('C17.b', 'no-response', 'op #%d produced no response' % opi)
                continue
            got = classify_response(resp[4])
            if got == ('cack',):
                try:
                    ack = ReadPropertyACK()
                    ack.decode(copy.deepcopy(resp[4]))
                    got = ('value', any_bytes(ack.propertyValue))
                except Exception as ex:
                    got = ('undecodable', repr(ex))
            obs.append((t, opi, got))
    for (t, opi, got) in obs:
        op = desc['ops'][opi]
        try:
            m.advance(t)
        except Tie:
            run.w.probe('tie_rest_of_run_discarded')
            break
        if op['op'] == 'cov':
            run.w.probe('cov_ops')
            continue
        if op['op'] == 'cmd':
            try:
                exp = m.command(t, op['value'], op.get('prio'))
            except Tie:
                run.w.probe('tie_rest_of_run_discarded')
                break
            if got != exp:
                if exp == ('ack',):
                    viol('C17.b', 'valid-command-refused', 'op #%d %r at t=%.3f answered %r' % (opi, _s(op), t, got), got=got[:3])
                elif got == ('ack',):
                    viol('C17.c', 'invalid-priority-accepted', 'op #%d %r must be refused with %r but was accepted' % (opi, _s(op), exp), prio=op.get('prio'))
                else:
                    viol('C17.c', 'invalid-priority-wrong-error', 'op #%d %r refused with %r, expected %r' % (opi, _s(op), got, exp), prio=op.get('prio'))
        else:
            try:
                m.advance(t)
            except Tie:
                run.w.probe('tie_rest_of_run_discarded')
                break
            if op['prop'] == 'presentValue':
                exp_pv = m.pv
                expb = slot_bytes(kind, exp_pv)
                if got != ('value', expb):
                    clause = 'C17.d' if m.binary and (m.min_on or m.min_off) and any(desc['ops'][j]['op'] == 'cmd' for (tt, j, g) in obs if tt <= t) else 'C17.a'
                    viol(clause, 'present-value', 'read of presentValue (op #%d, t=%.3f) returned %s, the reference model says %r = %s; model slots %r, default %r'
                         % (opi, t, got[1].hex() if got[0] == 'value' else got, exp_pv, expb.hex(), _slots(m), m.default),
                         hold=bool(m.timer), empty=all(s is None for s in m.slots))
            else:
                expb = pa_bytes(kind, m.slots)
                if got != ('value', expb):
                    clause = 'C17.d' if m.binary and (m.min_on or m.min_off) else 'C17.b'
                    viol(clause, 'priority-array', 'read of priorityArray (op #%d, t=%.3f) returned %s, the reference model says %s (slots %r)'
                         % (opi, t, got[1].hex() if got[0] == 'value' else got, expb.hex(), _slots(m)), hold=bool(m.timer))
    return out


def _s(op):
    return {k: v for k, v in op.items() if k != 'gap'}


def _slots(m):
    return {i + 1: s[1] for i, s in enumerate(m.slots) if s is not None}


def execute_desc(desc):
    run = Run(desc)
    if run.construct_error:
        res = 'quiescent'
        run.errors = []
    elif desc['mode'] == 'direct':
        res = run.run_direct()
    else:
        res = run.run()
    v = check(desc, run, res)
    w = run.w
    return {'violations': v, 'digest': w.digest(), 'events_tail': [list(map(str, e)) for e in w.events[-60:] if e[2] in ('submit', 'srv_ind', 'srv_resp', 'direct')][-30:],
            'probes': dict(w.probes), 'sim': w.sim_seconds, 'faults': dict(w.plan.counts), 'errors': run.errors}


# ------------------------------------------------------------------ generators

def reads():
    return [{'op': 'read', 'prop': 'presentValue'}, {'op': 'read', 'prop': 'priorityArray'}]


def gen_desc(seed, idx):
    rng = rng_for(seed, 'C17', idx)
    clsname = sorted(CLASSES)[idx % len(CLASSES)] if rng.random() < 0.7 else rng.choice(BINARY)
    kind, dom = CLASSES[clsname]
    binary = clsname in BINARY
    mode = rng.choice(['direct', 'wire'])
    d = {'prop': 'C17', 'seed': H(seed, 'C17run', idx) & 0x7fffffff, 'cls': clsname, 'mode': mode}
    if rng.random() < 0.7 or kind == 'datetime':
        # (a constructed DateTime has no encodable type default: such objects are always given a relinquish default)
        d['default'] = rng.choice(dom)
    if rng.random() < 0.3:
        d['pv0'] = rng.choice(dom)
    if binary:
        d['min_on'] = rng.choice([0, 0, 1, 3, 10])
        d['min_off'] = rng.choice([0, 0, 2, 5, 10])
        # (objects with minimum times are built with and without an explicit present value: the state an object is
        # constructed in is an initial value, not a new state that would have to be held)
    n = rng.randint(1, 100) if rng.random() < 0.5 else rng.randint(1, 12)
    ops = list(reads()) if rng.random() < 0.8 else []
    if binary and (d.get('min_on') or d.get('min_off')) and rng.random() < 0.2:
        # hold chains: a command starts a hold, the commanding slot is relinquished during it, the release at the end of the
        # hold flips the present value and thereby starts the OPPOSITE hold, an override at priority 1..5 flips the state
        # again inside that one, is relinquished ...; the present value and the array are read on both sides of every deadline
        n = 0
        first = rng.choice([['enum', 'active'], ['enum', 'inactive']])
        other = ['enum', 'inactive'] if first[1] == 'active' else ['enum', 'active']
        hi, lo = rng.choice([1, 2, 3, 4, 5]), rng.choice([7, 8, 12, 16, None])
        h1 = d['min_on'] if first[1] == 'active' else d['min_off']
        h2 = d['min_off'] if first[1] == 'active' else d['min_on']
        ops.append({'op': 'cmd', 'value': first, 'prio': lo, 'gap': 0.29})
        ops.append({'op': 'cmd', 'value': None, 'prio': lo, 'gap': rng.choice([0.0, 0.37])})
        t_rel = h1 + 0.0
        ops.append({'op': 'cmd', 'value': rng.choice([first, other]), 'prio': hi, 'gap': round(max(0.11, h1 - 0.37) + rng.choice([0.53, 0.71, 1.19]), 3)})
        ops.append({'op': 'cmd', 'value': None, 'prio': hi, 'gap': rng.choice([0.13, 0.41, 1.07])})
        for g in (0.17, 0.61, 1.03, 1.57, 2.09, 3.11, 4.17, 6.23):
            if rng.random() < 0.7:
                for r in reads():
                    r = dict(r)
                    r['gap'] = g if r['prop'] == 'presentValue' else 0.0
                    ops.append(r)
        if rng.random() < 0.5:
            ops.append({'op': 'cmd', 'value': rng.choice([first, other]), 'prio': rng.choice([hi, lo, 9]), 'gap': 0.43})
    for _ in range(n):
        u = rng.random()
        prio = rng.choice([None, None] + list(range(1, 17)) + list(range(1, 17)))
        if binary and (d.get('min_on') or d.get('min_off')) and prio == 6:
            prio = 7       # priority 6 is reserved for the minimum on/off mechanism
        if u < 0.08:
            prio = rng.choice([0, 17, 18, 255])
        if u < 0.6:
            op = {'op': 'cmd', 'value': rng.choice(dom), 'prio': prio}
        else:
            op = {'op': 'cmd', 'value': None, 'prio': prio}
        # gaps that never coincide with a whole-second timer expiry
        op['gap'] = rng.choice([0.0, 0.0, 0.37, 1.37, 2.61, 4.13, 9.77, 11.03]) if binary else rng.choice([0.0, 0.0, 0.5])
        ops.append(op)
        if rng.random() < 0.6:
            for r in reads():
                r = dict(r)
                r['gap'] = rng.choice([0.0, 0.0, 0.41, 3.29, 10.57]) if binary and rng.random() < 0.4 else 0.0
                ops.append(r)
    for r in reads():
        r = dict(r)
        r['gap'] = rng.choice([0.0, 12.19]) if binary else 0.0
        ops.append(r)
    if mode == 'wire' and binary and rng.random() < 0.35:
        # somebody subscribes to changes of the object and the subscription ends (cancelled or expired) in mid-history
        d['cov'] = True
        i_ = rng.randrange(len(ops) + 1)
        ops.insert(i_, {'op': 'cov', 'lifetime': rng.choice([2, 5, 30]), 'gap': 0.0})
        if rng.random() < 0.6:
            j_ = rng.randrange(i_ + 1, len(ops) + 1)
            ops.insert(j_, {'op': 'cov', 'lifetime': None, 'gap': rng.choice([0.0, 0.53])})
    d['ops'] = ops
    if mode == 'wire':
        d['faults'] = fault_profile(rng, 2.0, 0.5, allow_none=0.5)
        if binary and (d.get('min_on') or d.get('min_off')):
            # retransmission delays would move commands across timer expiries in ways the op list cannot express exactly;
            # the model follows the ACTUAL indication times, so this is sound -- but keep delays short of whole seconds
            if d['faults'].get('mode') == 'hashed':
                d['faults']['delays'] = [0.0007, 0.013, 0.29]
                d['faults']['gaps'] = [0.0, 0.0011, 0.31]
        d['latency'] = rng.choice([0.0, 0.001])
    return d


def enum_descs(clsname, length, mode='direct'):
    """all command sequences of the given length over 4 priorities x 3 values x {write, relinquish}"""
    kind, dom = CLASSES[clsname]
    prios = [1, 8, 16, None]
    alpha = [{'op': 'cmd', 'value': v, 'prio': p} for p in prios for v in dom[:3]] + [{'op': 'cmd', 'value': None, 'prio': p} for p in prios]
    # values may repeat in the domain (binary): dedupe
    uniq = []
    for a in alpha:
        if a not in uniq:
            uniq.append(a)
    for seqops in itertools.product(range(len(uniq)), repeat=length):
        ops = []
        for i in seqops:
            ops.append(dict(uniq[i]))
        ops += reads()
        d = {'prop': 'C17', 'seed': 0, 'cls': clsname, 'mode': mode, 'default': dom[1], 'ops': reads() + ops}
        if mode == 'wire':
            d['faults'] = {'mode': 'none'}
            d['latency'] = 0.0
        yield d


def _account(agg, d, r):
    agg.evals += 1
    agg.sim_seconds += r['sim']
    for k, v in r['faults'].items():
        agg.stat('fault.' + k, v)
    for k, v in r['probes'].items():
        agg.stat('probe.' + k, v)
    for e in r['errors']:
        agg.stat('looperr.%s:%s:%s' % (e[1], e[2], e[3]))
    agg.stat('probe.mode_' + d['mode'])
    agg.stat('probe.cls_' + d['cls'])
    if d.get('min_on') or d.get('min_off'):
        agg.stat('probe.min_on_off_runs')
    agg.sigs.add(H(d['cls'], d['mode'], repr(d.get('default')), repr(d.get('pv0')), d.get('min_on'), d.get('min_off'),
                   tuple((o['op'], repr(o.get('value')), o.get('prio'), o.get('gap')) for o in d['ops'])))
    if len(agg.samples) < 2 and len(d['ops']) < 14:
        agg.samples.append({'desc': d, 'events_tail': r['events_tail'][-10:]})
    for v in r['violations']:
        agg.violation(v, d)


def run_unit(unit):
    agg = Agg()
    if unit['kind'] == 'explore':
        for idx in range(unit['start'], unit['start'] + unit['count']):
            d = gen_desc(unit['seed'], idx)
            _account(agg, d, execute_desc(d))
    else:
        n = 0
        for d in enum_descs(unit['cls'], unit['length'], unit.get('mode', 'direct')):
            if n % unit['mod'] == unit['rem']:
                _account(agg, d, execute_desc(d))
            n += 1
        agg.cells += 1
    return agg.result()


def units(tier, seed):
    us = []
    names = sorted(CLASSES)
    if tier == 'quick':
        for c in names:
            us.append({'kind': 'enum', 'must': True, 'cls': c, 'length': 1, 'mod': 1, 'rem': 0})
            us.append({'kind': 'enum', 'must': True, 'cls': c, 'length': 2, 'mod': 1, 'rem': 0})
            us.append({'kind': 'enum', 'must': True, 'cls': c, 'length': 1, 'mod': 1, 'rem': 0, 'mode': 'wire'})
        n = 1200
    else:
        for c in names:
            for ln in (1, 2, 3):
                us.append({'kind': 'enum', 'must': True, 'cls': c, 'length': ln, 'mod': 1, 'rem': 0})
            for rem in range(16):
                us.append({'kind': 'enum', 'must': True, 'cls': c, 'length': 4, 'mod': 16, 'rem': rem})
            # the same alphabet through WriteProperty / ReadProperty requests of a real client stack (fault-free LAN)
            us.append({'kind': 'enum', 'must': True, 'cls': c, 'length': 1, 'mod': 1, 'rem': 0, 'mode': 'wire'})
            us.append({'kind': 'enum', 'must': True, 'cls': c, 'length': 2, 'mod': 1, 'rem': 0, 'mode': 'wire'})
            for rem in range(8):
                us.append({'kind': 'enum', 'must': True, 'cls': c, 'length': 3, 'mod': 8, 'rem': rem, 'mode': 'wire'})
        for c in ('AnalogValueCmdObject', 'BinaryValueCmdObject'):
            for rem in range(64):
                us.append({'kind': 'enum', 'must': True, 'cls': c, 'length': 5, 'mod': 64, 'rem': rem})
        n = 8000
    for k in range(n):
        us.append({'kind': 'explore', 'seed': seed, 'start': k * 20, 'count': 20})
    return us


def selftest_descs(tier, seed):
    return [gen_desc(seed, 11000003 + i) for i in range(4)]


def evidence(tier, seed, total):
    return {
        'level': LEVEL,
        'coverage': {
            'rule': 'Enumerated: for each of the 20 commandable classes ALL command sequences of the stated length over 4 priorities (1, 8, 16, none) x 3 values x {write, relinquish} '
                    'through direct property access and (shorter lengths) through WriteProperty requests on the wire, present value and priority array read before and after. Explored: seeded sequences of 1-100 commands over all 16 priorities, '
                    'invalid priorities (0, 17, 18, 255), optional relinquish default / initial present value, binary classes with minimum on/off times 0-10 s and virtual time '
                    'advanced between commands (gaps chosen off the whole-second grid so no read ties with a timer expiry), half of the runs through direct access and half through '
                    'WriteProperty / ReadProperty requests of a real client stack over a LAN with hashed drop/dup/delay plans (the model is applied at each server-side '
                    'indication, so retries and late duplicates are followed exactly). Distinct = distinct (class, mode, configuration, op list) tuples; every run is non-trivial.',
            'enumerated_cells': total['cells'],
            'components_real': ['local.object.Commandable (_Commando.WriteProperty, _highest_priority_value)', 'local.object.MinOnOffTask / MinOnOff', 'all 20 *CmdObject classes',
                                'service.object read/write handlers', 'object.py property machinery', 'app + ASAP + SMAP + NSAP on both sides (wire mode)', 'task.TaskManager', 'core.run_once'],
            'components_stub': ['wall clock', 'LAN fault layer'],
        },
        'assumptions': ['the 16-slot reference model and its slot-6 timer model are correct', 'a write without priority counts as priority 16',
                        'priority 6 is not commanded on binary objects with minimum times (reserved by the standard for that mechanism)',
                        'the state a binary object is constructed in (given or defaulted) is not held: only states assumed through commands are',
                        'exhaustive enumeration, direct access: lengths 1-2 (quick), lengths 1-4 for all 20 classes and length 5 for the analog-value and binary-value classes (thorough); '
                        'through WriteProperty requests over a fault-free LAN: length 1 (quick), lengths 1-3 for all 20 classes (thorough)'],
    }
