"""
C10 -- a device answers every well-framed request and stays healthy under
garbage.  Corruption-fault enumeration (every single-octet substitution from
a value set, every truncation, every one-octet insertion over one valid frame
per service) + seeded interleavings of garbage with valid requests delivered
in the same loop batch, against a complete BACnet/IP device
(BVLL -> NPDU -> APDU -> application) on the in-memory datagram director.
"""

import copy
import struct

from .. import env, wire
from ..env import clock, tm, errlog
from ..world import World, H, U
from ..driver import Agg
from ..txngen import rng_for
from ..ipstack import IPFabric, IPStack
from ..stacks import SimDevice, VENDOR, stack_timers

import bacpypes.core as core
from bacpypes.app import ApplicationIOController
from bacpypes.service.device import WhoIsIAmServices, WhoHasIHaveServices, DeviceCommunicationControlServices
from bacpypes.service.object import ReadWritePropertyServices, ReadWritePropertyMultipleServices
from bacpypes.service.cov import ChangeOfValueServices
from bacpypes.object import AnalogValueObject, BinaryValueObject
from bacpypes.apdu import ConfirmedPrivateTransferACK
from bacpypes.pdu import Address

ID = 'C10'
LEVEL = 'fault_enumeration'
BUDGET = {'quick': 50, 'thorough': 780}
SHRINK_LISTS = [('frames',)]

DEV_ADDR = '10.0.0.2/24'
INJ_ADDR = '10.0.0.9/24'
DEV_T = ('10.0.0.2', 47808)
INJ_T = ('10.0.0.9', 47808)
PASSWORD = 'xyzzy'


class DevApp(ApplicationIOController, WhoIsIAmServices, WhoHasIHaveServices, ReadWritePropertyServices,
             ReadWritePropertyMultipleServices, ChangeOfValueServices, DeviceCommunicationControlServices):
    _startup_disabled = True

    def do_ConfirmedPrivateTransferRequest(self, apdu):
        ack = ConfirmedPrivateTransferACK(context=apdu)
        ack.vendorID = apdu.vendorID
        ack.serviceNumber = apdu.serviceNumber
        ack.resultBlock = apdu.serviceParameters
        self.response(ack)

    def do_UnconfirmedPrivateTransferRequest(self, apdu):
        pass

    feed_cache = True

    def do_IAmRequest(self, apdu):
        # the stock handler validates the parameters and leaves the rest to the application ("update the device info cache
        # if it is [looking for this device]"): this application remembers what its peers announce
        WhoIsIAmServices.do_IAmRequest(self, apdu)
        if self.feed_cache:
            self.deviceInfoCache.iam_device_info(apdu)


# ------------------------------------------------------------------ valid frames (harness encoder)

OT_AV, OT_BV, OT_DEV = 2, 5, 8
P_PV, P_NAME, P_ALL, P_DESC = 85, 77, 8, 28


BIG_TEXT = ''.join(chr(97 + (i * 7) % 26) for i in range(330))      # a property whose value needs 8+ segments of 50 octets


def frame(apdu, der=True, bvfn=wire.BV_ORIG_UNICAST):
    return wire.encode_bvll(bvfn, wire.encode_npdu(apdu, der=der))


def valid_frames():
    f = {}
    f['ReadProperty'] = frame(wire.conf_req(11, 12, wire.ctx_objid(0, OT_AV, 1) + wire.ctx_enum(1, P_PV)))
    f['WriteProperty'] = frame(wire.conf_req(12, 15, wire.ctx_objid(0, OT_AV, 1) + wire.ctx_enum(1, P_PV) + wire.ctx_open(3) + wire.tag_real(2.5) + wire.ctx_close(3) + wire.ctx_uint(4, 8)))
    f['ReadPropertyMultiple'] = frame(wire.conf_req(13, 14, wire.ctx_objid(0, OT_AV, 1) + wire.ctx_open(1) + wire.ctx_enum(0, P_PV) + wire.ctx_enum(0, P_NAME) + wire.ctx_close(1)))
    f['SubscribeCOV'] = frame(wire.conf_req(14, 5, wire.ctx_uint(0, 7) + wire.ctx_objid(1, OT_AV, 1) + wire.ctx_bool(2, False) + wire.ctx_uint(3, 30)))
    f['ConfirmedPrivateTransfer'] = frame(wire.conf_req(15, 18, wire.ctx_uint(0, VENDOR) + wire.ctx_uint(1, 3) + wire.ctx_open(2) + wire.tag_octets(b'\x01\x02\x03\x04') + wire.ctx_close(2)))
    pw = b'\x00' + PASSWORD.encode()
    f['DeviceCommunicationControl'] = frame(wire.conf_req(16, 17, wire.ctx_enum(1, 0) + wire._tag_head(2, 1, len(pw)) + pw))
    f['AtomicReadFile(unsupported)'] = frame(wire.conf_req(17, 6, wire.tag_objid(10, 1) + wire.ctx_open(0) + wire.tag_int(0) + wire.tag_uint(10) + wire.ctx_close(0)))
    f['WritePropertyMultiple(unsupported)'] = frame(wire.conf_req(18, 16, wire.ctx_objid(0, OT_AV, 1) + wire.ctx_open(1) + wire.ctx_enum(0, P_PV) + wire.ctx_open(2) + wire.tag_real(1.0) + wire.ctx_close(2) + wire.ctx_close(1)))
    f['UnknownService29'] = frame(wire.conf_req(19, 29, b''))
    f['SubscribeCOVProperty'] = frame(wire.conf_req(20, 28, wire.ctx_uint(0, 8) + wire.ctx_objid(1, OT_AV, 1) + wire.ctx_bool(2, False) + wire.ctx_uint(3, 30)
                                                    + wire.ctx_open(4) + wire.ctx_enum(0, P_PV) + wire.ctx_close(4)))
    f['ReadProperty-array'] = frame(wire.conf_req(21, 12, wire.ctx_objid(0, OT_DEV, 1002) + wire.ctx_enum(1, 76) + wire.ctx_uint(2, 0)))
    # unconfirmed
    f['WhoIs'] = frame(wire.unconf_req(8, wire.ctx_uint(0, 0) + wire.ctx_uint(1, 4000000)), der=False)
    f['IAm'] = frame(wire.unconf_req(0, wire.tag_objid(OT_DEV, 77) + wire.tag_uint(480) + wire.tag_enum(3) + wire.tag_uint(15)), der=False)
    f['WhoHas'] = frame(wire.unconf_req(7, wire.ctx_objid(2, OT_AV, 1)), der=False)
    f['UnconfirmedPrivateTransfer'] = frame(wire.unconf_req(4, wire.ctx_uint(0, VENDOR) + wire.ctx_uint(1, 3)), der=False)
    f['TimeSynchronization'] = frame(wire.unconf_req(6, b'\xa4\x7e\x09\x1a\x06' + b'\xb4\x0a\x0b\x0c\x00'), der=False)
    return f


VALID = valid_frames()
SUBST = [0x00, 0xFF, 0x0E, 0x0F, 0x1E, 0x1F, 0x2E, 0x2F, 0x3E, 0x3F, 0x05, 0xFE, 0x55, 0x80, 0x08]


def mutations(fr, full):
    """(label, octets) for every single-octet substitution from the value
    set, every truncation, every one-octet insertion."""
    out = []
    for i in range(len(fr)):
        vals = set(SUBST) | {fr[i] ^ 0x01, fr[i] ^ 0x80, fr[i] ^ 0x08, fr[i] ^ 0x10, (fr[i] + 1) & 0xff}
        if not full:
            vals = {0x00, 0xFF, fr[i] ^ 0x01, fr[i] ^ 0x80, fr[i] ^ 0x08, 0x0E, 0x0F, 0x3F, 0xFE}
        for v in sorted(vals):
            if v != fr[i]:
                out.append(('sub@%d=%02x' % (i, v), fr[:i] + bytes([v]) + fr[i + 1:]))
        out.append(('trunc@%d' % i, fr[:i]))
        for v in ((0x55, 0x0E, 0xFF) if full else (0x55,)):
            out.append(('ins@%d=%02x' % (i, v), fr[:i] + bytes([v]) + fr[i:]))
    return out


def fix_bvll_len(fr):
    """re-write the BVLL length so that a mutation of the inner layers still
    reaches them (used by half of the mutants)"""
    if len(fr) >= 4 and fr[0] == 0x81:
        return fr[:2] + struct.pack('!H', len(fr)) + fr[4:]
    return fr


def classify(fr):
    """Harness' own classification: does this datagram carry a reply
    obligation?  Deliberately narrow.  Returns (intact, invoke, service)."""
    v = wire.decode_bvll(fr)
    if v is None or v['fn'] != wire.BV_ORIG_UNICAST or not v['length_ok']:
        return (False, None, None)
    b = v['npdu']
    if len(b) < 2 or b[0] != 1:
        return (False, None, None)
    ctl = b[1]
    if ctl & ~0x07:
        return (False, None, None)      # DNET / SNET / network message / reserved bits
    a = b[2:]
    if len(a) < 4:
        return (False, None, None)
    if (a[0] >> 4) != 0 or (a[0] & 0x08):
        return (False, None, None)      # not a confirmed request or segmented
    if a[0] & 0x01:
        return (False, None, None)      # reserved bit of the first octet
    if a[1] & 0x80:
        return (False, None, None)      # reserved bit of the max-segments nibble
    return (True, a[2], a[3])


def loose_invoke(fr):
    """invoke id if the datagram could be read as a confirmed request at all"""
    v = wire.decode_bvll(fr)
    if v is None or 'npdu' not in v:
        return None
    n = wire.decode_npdu(v['npdu'])
    if n is None or n['netmsg']:
        return None
    a = n['apdu']
    if len(a) >= 3 and (a[0] >> 4) == 0:
        return a[2]
    return None


# ------------------------------------------------------------------ world

class Run:
    def __init__(self, desc):
        self.desc = desc
        w = World(desc.get('seed', 0), faults=None, frame_cap=desc.get('frame_cap', 4000), tick_cap=200000)
        self.w = w
        fab = IPFabric(w)
        fab.subnet('sub0', '10.0.0.1/24')
        self.dev_host = fab.host('dev', DEV_ADDR, 'sub0')
        self.inj = fab.host('inj', INJ_ADDR, 'sub0')
        self.rx = []
        self.inj.raw_rx = self._inj_rx
        # a second raw host: the (real) router of remote network 5 for the routed follow-up request
        self.rtr = fab.host('rtr', '10.0.0.8/24', 'sub0')
        self.rtr_rx = []
        self.rtr.raw_rx = lambda src, dst, octets: self.rtr_rx.append((w.log('rtrrx', octets.hex()), w.now, octets))
        device = SimDevice(objectName='dev', objectIdentifier=('device', 1002), maxApduLengthAccepted=1024,
                           segmentationSupported='segmentedBoth', maxSegmentsAccepted=16, vendorIdentifier=VENDOR,
                           numberOfApduRetries=1, apduTimeout=2000, apduSegmentTimeout=1000)
        device._dcc_password = PASSWORD
        app = DevApp(device)
        app.feed_cache = desc.get('feed_cache', True)
        self.app = app
        self.av1 = AnalogValueObject(objectIdentifier=('analogValue', 1), objectName='av1', presentValue=1.0,
                                     statusFlags=[0, 0, 0, 0], covIncrement=0.5, description='one')
        self.av2 = AnalogValueObject(objectIdentifier=('analogValue', 2), objectName='av2', presentValue=7.0,
                                     statusFlags=[0, 0, 0, 0], description=BIG_TEXT)
        self.bv1 = BinaryValueObject(objectIdentifier=('binaryValue', 1), objectName='bv1', presentValue='inactive',
                                     statusFlags=[0, 0, 0, 0])
        for o in (self.av1, self.av2, self.bv1):
            app.add_object(o)
        self.stack = IPStack(w, self.dev_host, app, device, 'simple')
        self.stack.smap.applicationTimeout = 2000
        self.sent = []
        self.timer_viol = []

    def _inj_rx(self, src, dst, octets):
        seq = self.w.log('injrx', '%s:%d' % tuple(src), octets.hex())
        self.rx.append((seq, self.w.now, octets))

    def send(self, octets, label=''):
        seq = self.w.log('injtx', label, octets.hex())
        self.sent.append((seq, self.w.now, octets, label))
        self.inj.send(octets, DEV_T)

    def replies(self, invoke, after_seq):
        """(count, kinds) of replies carrying the invoke id received after seq"""
        unseg = []
        seg = set()
        for (seq, t, octets) in self.rx:
            if seq <= after_seq:
                continue
            v = wire.decode_bvll(octets)
            if v is None or 'npdu' not in v:
                continue
            n = wire.decode_npdu(v['npdu'])
            if n is None or n['netmsg']:
                continue
            a = wire.decode_apdu(n['apdu'])
            if a is None or a.get('invoke') != invoke:
                continue
            t_ = a['type']
            if t_ in (wire.T_SACK, wire.T_ERROR, wire.T_REJECT) or (t_ == wire.T_ABORT and a['srv']) or (t_ == wire.T_CACK and not a['seg']):
                unseg.append((a['name'], a))
            elif t_ == wire.T_CACK and a['seg']:
                seg.add(a['service'])
        n_rep = len(unseg) + (1 if seg else 0)
        return n_rep, [u[0] for u in unseg] + (['cack-segmented'] if seg else []), unseg

    def inspect_timers(self):
        """invariant while the run proceeds: a transaction state machine sits in the scheduler at most once, and never
        after it has finished"""
        from bacpypes.appservice import SSM, COMPLETED, ABORTED
        seen = set()
        for (when, n, task) in tm.tasks:
            if not isinstance(task, SSM):
                continue
            what = None
            if id(task) in seen:
                what = 'two scheduler entries for one %s (state %s)' % (type(task).__name__, SSM.transactionLabels[task.state])
            elif task.state in (COMPLETED, ABORTED):
                what = 'scheduler entry for a %s %s' % (SSM.transactionLabels[task.state], type(task).__name__)
            seen.add(id(task))
            if what and not self.timer_viol:
                self.timer_viol.append('%s at t=%.3f (peer %s, invoke %s)' % (what, self.w.now, task.pdu_address, task.invokeID))
        self.w.probe('timer_invariant_checked')

    def quiesce(self, horizon=120.0):
        self._t_last = clock.now
        return self.w.run(until=self.w.now + horizon)

    def residue(self):
        res = self.stack.residue()
        heap = stack_timers(tm.tasks)
        for k in list(heap):
            if 'SSM' not in k:
                heap.pop(k)
        if heap:
            res['ssm_timers'] = heap
        q = 0
        for qq in self.app.queue_by_address.values():
            q += len(qq.ioQueue.queue) + (1 if qq.active_iocb else 0)
        if q:
            res['iocb_queued'] = q
        return res

    def finish(self):
        tm.tasks = []
        core.deferredFns = []


def follow_up(run, out, sig_extra):
    """C10.d: a subsequent valid request is answered correctly."""
    w = run.w
    dcc_disabled = run.stack.smap.dccEnableDisable == 'disable'
    if dcc_disabled:
        # communications legitimately disabled by an accepted DeviceCommunicationControl request; only the value 'disable'
        # does that -- 'disableInitiation', an undefined enumeration value or an absent parameter leave a device that answers
        w.probe('dcc_disabled_legit')
        return
    mark = w.seq
    run.send(frame(wire.conf_req(201, 12, wire.ctx_objid(0, OT_AV, 2) + wire.ctx_enum(1, P_NAME))), 'followup-name')
    run.send(frame(wire.conf_req(202, 12, wire.ctx_objid(0, OT_AV, 1) + wire.ctx_enum(1, P_PV))), 'followup-pv')
    run.quiesce(30.0)
    n1, k1, u1 = run.replies(201, mark)
    n2, k2, u2 = run.replies(202, mark)
    want_name = wire.ctx_objid(0, OT_AV, 2) + wire.ctx_enum(1, P_NAME) + wire.ctx_open(3) + wire.tag_chars('av2') + wire.ctx_close(3)
    ok1 = n1 == 1 and k1 == ['cack'] and u1[0][1]['data'] == want_name
    pv = run.av1.presentValue
    want_pv = wire.ctx_objid(0, OT_AV, 1) + wire.ctx_enum(1, P_PV) + wire.ctx_open(3) + wire.tag_real(pv) + wire.ctx_close(3)
    ok2 = n2 == 1 and k2 == ['cack'] and u2[0][1]['data'] == want_pv
    # a valid request from a station on remote network 5, arriving through its router: the answer must go back through
    # that router -- whatever garbage claiming to come from network 5 the device saw before
    mark3 = w.seq
    routed = wire.encode_bvll(wire.BV_ORIG_UNICAST, wire.encode_npdu(wire.conf_req(203, 12, wire.ctx_objid(0, OT_AV, 2) + wire.ctx_enum(1, P_NAME)), snet=5, sadr=b'\x01', der=True))
    w.log('rtrtx', routed.hex())
    run.rtr.send(routed, DEV_T)
    run.quiesce(30.0)
    got3 = []
    for (seq, t, octets) in run.rtr_rx:
        if seq <= mark3:
            continue
        v = wire.decode_bvll(octets)
        n = wire.decode_npdu(v['npdu']) if v and 'npdu' in v else None
        a = wire.decode_apdu(n['apdu']) if n and not n['netmsg'] else None
        if a is not None and a.get('invoke') == 203:
            got3.append((n['dnet'], n['dadr'], a['name'], a.get('data')))
    ok3 = len(got3) == 1 and got3[0][0] == 5 and got3[0][1] == b'\x01' and got3[0][2] == 'cack' and got3[0][3] == want_name
    if not ok3:
        stray = run.replies(203, mark3)[1]
        out.append({'clause': 'C10.d', 'detail': 'follow-up ReadProperty routed from network 5 through router 10.0.0.8 was answered %r at that router (expected one ComplexAck with DNET 5); '
                    'replies with that invoke id that reached the garbage injector instead: %r' % ([(g[0], g[2]) for g in got3], stray), 'sigkey': 'followup-routed',
                    'sig': dict({'kind': 'followup-routed', 'misdirected': bool(stray)}, **sig_extra)})
    if not (ok1 and ok2):
        s = {'kind': 'followup'}
        s.update(sig_extra)
        out.append({'clause': 'C10.d', 'detail': 'follow-up ReadProperty requests after the garbage were answered %r / %r (expected one ComplexAck each with the right value)'
                    % (k1, k2), 'sigkey': 'followup', 'sig': s})


def loop_errors():
    return sorted(set('%s:%s:%s' % (e[1], e[2], e[3]) for e in errlog.records))


def execute_single(desc):
    """One mutated frame in a fresh world, then the follow-up."""
    run = Run(desc)
    w = run.w
    out = []
    fr = bytes.fromhex(desc['frame'])
    run.send(fr, desc.get('label', ''))
    res = run.quiesce()
    sig_extra = {'service': desc.get('service'), 'mut': desc.get('label', '').split('@')[0]}
    if res == 'budget':
        out.append({'clause': 'C10.b', 'detail': 'device did not come to rest: frame/tick budget exceeded', 'sigkey': 'budget', 'sig': dict(sig_extra, kind='budget')})
        run.finish()
        return run, out
    intact, invoke, service = classify(fr)
    errs = loop_errors()
    if intact:
        n, kinds, _ = run.replies(invoke, 0)
        if n != 1:
            out.append({'clause': 'C10.a', 'detail': 'well-framed confirmed request (service %d, invoke %d, mutation %s of %s) received %d replies %r; swallowed exceptions %r'
                        % (service, invoke, desc.get('label'), desc.get('service'), n, kinds, errs),
                        'sigkey': 'replies=%d:%s' % (min(n, 2), ','.join(errs)), 'sig': dict(sig_extra, kind='reply-count', n=min(n, 2), errors=errs, svc=service)})
        w.probe('intact')
    else:
        w.probe('not_intact')
    r = run.residue()
    if r:
        out.append({'clause': 'C10.b', 'detail': 'after %s of %s the device holds %r; swallowed exceptions %r' % (desc.get('label'), desc.get('service'), r, errs),
                    'sigkey': 'residue:' + ','.join(sorted(r)), 'sig': dict(sig_extra, kind='residue', what=sorted(r), errors=errs)})
    follow_up(run, out, sig_extra)
    run.finish()
    return run, out


def execute_batch(desc):
    """Several frames (valid and garbage) delivered in the same instant(s)."""
    run = Run(desc)
    w = run.w
    out = []
    obligations = []
    routed = []
    routed_seen = {}
    for item in desc['frames']:
        fr = bytes.fromhex(item['frame'])
        if item.get('gap'):
            run.quiesce(item['gap'])
            target = run._t_last + item['gap']
            if clock.now < target:
                clock.now = target
        run.inspect_timers()
        mark = w.seq
        if item.get('from') == 'rtr':
            # a request of a station on a remote network, arriving through its router (obligation: one reply back
            # through that router, addressed to that network and station)
            w.log('rtrtx', item.get('label', ''), fr.hex())
            run.rtr.send(fr, DEV_T)
            if item.get('invoke', -1) >= 0:
                routed_seen[(item['invoke'], item['snet'])] = routed_seen.get((item['invoke'], item['snet']), 0) + 1
            if item.get('valid'):
                routed.append((mark, item['invoke'], item['snet'], item.get('label', '')))
            continue
        run.send(fr, item.get('label', ''))
        intact, invoke, service = classify(fr)
        if intact:
            obligations.append((mark, invoke, service, item.get('label', ''), item.get('valid', False)))
    for dt in (0.0, 0.4, 0.7, 1.1, 1.6, 2.2, 3.1, 4.3, 6.1, 9.7):
        w.after(dt, run.inspect_timers)
    res = run.quiesce()
    if res == 'budget':
        out.append({'clause': 'C10.b', 'detail': 'device did not come to rest: frame/tick budget exceeded', 'sigkey': 'budget', 'sig': {'kind': 'budget'}})
        run.finish()
        return run, out
    errs = loop_errors()
    for tv in run.timer_viol:
        out.append({'clause': 'C10.b', 'detail': 'leftover timer while the device is working: %s; swallowed exceptions %r' % (tv, errs),
                    'sigkey': 'stale-timer', 'sig': {'kind': 'stale-timer', 'what': tv.split(' at t=')[0]}})
    # replies are attributed by invoke id: any other datagram of the batch that could be read as a
    # confirmed request with the same id (however loosely framed) makes the count ambiguous
    seen_inv = {}
    for item in desc['frames']:
        li = loose_invoke(bytes.fromhex(item['frame']))
        if li is not None:
            seen_inv[li] = seen_inv.get(li, 0) + 1
    for (mark, invoke, service, label, valid) in obligations:
        if seen_inv.get(invoke, 0) > 1:
            w.probe('ambiguous_invoke_in_batch')
            continue
        n, kinds, _ = run.replies(invoke, 0)
        if n != 1:
            clause = 'C10.c' if valid else 'C10.a'
            out.append({'clause': clause, 'detail': '%s request %r (service %d, invoke %d) sent in one batch with %d other datagrams received %d replies %r; swallowed exceptions %r'
                        % ('valid' if valid else 'well-framed', label, service, invoke, len(desc['frames']) - 1, n, kinds, errs),
                        'sigkey': 'batch-replies=%d:%s:%s' % (min(n, 2), 'valid' if valid else 'mut', ','.join(errs)),
                        'sig': {'kind': 'batch-reply-count', 'n': min(n, 2), 'valid': valid, 'errors': errs}})
    for (mark, invoke, snet, label) in routed:
        if routed_seen.get((invoke, snet), 0) > 1:
            w.probe('ambiguous_invoke_in_batch')
            continue
        kinds = set()
        for (seq, t, octets) in run.rtr_rx:
            v = wire.decode_bvll(octets)
            n = wire.decode_npdu(v['npdu']) if v and 'npdu' in v else None
            a = wire.decode_apdu(n['apdu']) if n and not n['netmsg'] else None
            if a is not None and a.get('invoke') == invoke and n['dnet'] == snet and seq > mark:
                if a['type'] in (wire.T_SACK, wire.T_ERROR, wire.T_REJECT, wire.T_CACK) or (a['type'] == wire.T_ABORT and a['srv']):
                    kinds.add(a['name'] if not a.get('seg') else 'cack-segmented')
        if len(kinds) != 1:
            out.append({'clause': 'C10.c', 'detail': 'valid routed request %r (network %d, invoke %d) received replies %r through its router; swallowed exceptions %r'
                        % (label, snet, invoke, sorted(kinds), errs), 'sigkey': 'routed-replies=%d' % min(len(kinds), 2),
                        'sig': {'kind': 'routed-reply-count', 'n': min(len(kinds), 2), 'errors': errs}})
    r = run.residue()
    if r:
        out.append({'clause': 'C10.b', 'detail': 'after the batch the device holds %r; swallowed exceptions %r' % (r, errs),
                    'sigkey': 'residue:' + ','.join(sorted(r)), 'sig': {'kind': 'residue', 'what': sorted(r), 'errors': errs}})
    follow_up(run, out, {})
    run.finish()
    return run, out


def execute_desc(desc):
    if desc.get('dcc'):
        run, v = execute_dcc(desc)
    elif 'frames' in desc:
        run, v = execute_batch(desc)
    else:
        run, v = execute_single(desc)
    return {'violations': v, 'digest': run.w.digest(), 'events_tail': [list(map(str, e)) for e in run.w.events[-30:]], 'run': None,
            'probes': dict(run.w.probes), 'sim': run.w.sim_seconds, 'nrx': len(run.rx)}


# ------------------------------------------------------------------ generators

def random_garbage(rng):
    style = rng.choice(['raw', 'bvll', 'bvll+npdu', 'bvll+npdu+apdu', 'mutant', 'mutant2', 'netmsg'])
    n = rng.randint(0, 64)
    body = bytes(rng.randrange(256) for _ in range(n))
    if style == 'raw':
        return body, 'raw'
    if style == 'bvll':
        return wire.encode_bvll(rng.choice([0x0A, 0x0A, 0x0B, 0x04, 0x09, 0x05, 0x00, 0x02, 0x06, 0x08, rng.randrange(256)]), body), 'bvll'
    if style == 'bvll+npdu':
        ctl = rng.choice([0x00, 0x04, 0x20, 0x08, 0x28, 0x80, rng.randrange(256)])
        return wire.encode_bvll(0x0A, bytes([1, ctl]) + body), 'npdu'
    if style == 'netmsg':
        return wire.encode_bvll(0x0A, wire.encode_npdu(msg=rng.choice([0, 1, 2, 3, 6, 7, 0x12, 0x13, rng.randrange(256)]), msgdata=body[:8])), 'netmsg'
    if style == 'bvll+npdu+apdu':
        t = rng.choice([0, 0, 0, 1, 2, 3, 4, 5, 6, 7, rng.randrange(16)])
        hdr = bytes([(t << 4) | rng.choice([0, 0, 2, 4, 8, 12, rng.randrange(16)]), rng.randrange(256), rng.randrange(100, 200), rng.choice([12, 15, 14, 5, 18, 6, 16, 29, rng.randrange(256)])])
        return frame(hdr + body[:rng.randint(0, 30)]), 'apdu'
    name = rng.choice(sorted(VALID))
    fr = VALID[name]
    muts = mutations(fr, False)
    lab, m = muts[rng.randrange(len(muts))]
    if style == 'mutant2':
        muts2 = mutations(m, False) if m else []
        if muts2:
            lab2, m = muts2[rng.randrange(len(muts2))]
            lab += '+' + lab2
    if rng.random() < 0.5:
        m = fix_bvll_len(m)
    # keep invoke ids of garbage away from the valid ones used in the same batch
    return m, 'mut:%s:%s' % (name, lab)


def gen_batch(seed, idx):
    rng = rng_for(seed, 'C10', idx)
    n = rng.randint(2, 12)
    frames = []
    names = [k for k in sorted(VALID) if k != 'DeviceCommunicationControl']
    inv = 30
    for i in range(n):
        gap = rng.choice([0, 0, 0, 0, 0.001, 1.0])
        if rng.random() < 0.4:
            name = rng.choice(names)
            fr = bytearray(VALID[name])
            intact, invoke, service = classify(bytes(fr))
            if intact:
                inv += 1
                fr[4 + 2 + 2] = inv        # BVLL(4) NPDU(2) APDU[2] = invoke id
                if rng.random() < 0.35:
                    fr[4 + 2] |= 0x02      # segmented-response-accepted
            frames.append({'frame': bytes(fr).hex(), 'label': 'valid:' + name, 'valid': True, 'gap': gap})
        else:
            g, lab = random_garbage(rng)
            # garbage derived from DCC frames could legitimately disable the device: leave those out of batches
            if 'DeviceCommunicationControl' in lab:
                continue
            intact, invoke, service = classify(g)
            if intact and service == 17:
                continue
            frames.append({'frame': g.hex(), 'label': lab, 'gap': gap})
    return {'prop': 'C10', 'seed': H(seed, 'C10run', idx) & 0x7fffffff, 'frames': frames, 'feed_cache': rng.random() < 0.8}


def gen_conv(seed, idx):
    """Segmented conversations: requests whose answer needs 8+ segments (the requester accepts 50 octets), then a seeded
    script of segment-acks -- right ones, wrong sequence numbers, absurd windows, wrong role bits, other invoke ids --,
    duplicates of the request, aborts and silence; up to three requesters at once (the injector with two invoke ids,
    stations 5:05 and 6:05 behind the router host with the SAME invoke id).  Afterwards: every request got its one reply,
    nothing is left in the device, the follow-up requests are answered."""
    rng = rng_for(seed, 'C10conv', idx)
    big = wire.ctx_objid(0, OT_AV, 2) + wire.ctx_enum(1, P_DESC)
    frames = []
    inv_a = rng.choice([1, 7, 40, 255])
    talkers = [('inj', inv_a, None)]
    if rng.random() < 0.5:
        talkers.append(('inj', (inv_a + 1) & 0xff, None))
    if rng.random() < 0.5:
        talkers.append(('rtr', inv_a, 5))
        if rng.random() < 0.6:
            talkers.append(('rtr', inv_a, 6))
    rng.shuffle(talkers)

    def wrap(apdu, who, snet):
        if who == 'inj':
            return frame(apdu)
        return wire.encode_bvll(wire.BV_ORIG_UNICAST, wire.encode_npdu(apdu, snet=snet, sadr=b'\x05', der=True))

    for (who, inv, snet) in talkers:
        apdu = wire.conf_req(inv, 12, big, maxsegs=rng.choice([0, 0, 4, 7]), maxresp=0, sa=True)
        it = {'frame': wrap(apdu, who, snet).hex(), 'label': 'valid:RP-big:%s:%s:%d' % (who, snet, inv), 'valid': True, 'gap': rng.choice([0, 0, 0.2])}
        if who == 'rtr':
            it.update({'from': 'rtr', 'invoke': inv, 'snet': snet})
        frames.append(it)
    nxt = {}
    for k in range(rng.randint(0, 14)):
        who, inv, snet = rng.choice(talkers)
        u = rng.random()
        key = (who, inv, snet)
        if u < 0.45:
            # the right acknowledgement for where this script thinks the transfer is (window 1..3)
            win = rng.choice([1, 1, 2, 3])
            sq = nxt.get(key, 0) + win - 1
            nxt[key] = sq + 1
            apdu = wire.segment_ack(inv, sq, win)
            lab = 'segack:%d/%d' % (sq, win)
        elif u < 0.8:
            apdu = wire.segment_ack(rng.choice([inv, inv, inv, (inv + 3) & 0xff]), rng.choice([0, 1, 2, 5, 7, 8, 200, 255]), rng.choice([0, 1, 2, 4, 127, 255]),
                                    nak=rng.random() < 0.3, srv=rng.random() < 0.2)
            lab = 'segack:odd'
        elif u < 0.9:
            apdu = wire.conf_req(inv, 12, big, maxsegs=0, maxresp=0, sa=True)
            lab = 'dup-request'
        else:
            apdu = wire.abort_pdu(inv, rng.choice([0, 4, 9]), srv=False)
            lab = 'abort'
        it = {'frame': wrap(apdu, who, snet).hex(), 'label': lab, 'gap': rng.choice([0, 0, 0.001, 0.3, 1.2, 2.5])}
        if who == 'rtr':
            it.update({'from': 'rtr', 'invoke': -1, 'snet': snet})
            if lab == 'dup-request':
                it['invoke'] = inv
        frames.append(it)
    return {'prop': 'C10', 'seed': H(seed, 'C10conv', idx) & 0x7fffffff, 'frames': frames, 'frame_cap': 8000, 'conv': True}


def dcc_frame(invoke, enable_disable, minutes=None, password=PASSWORD):
    pw = password.encode() if isinstance(password, str) else password
    data = (wire.ctx_uint(0, minutes) if minutes is not None else b'') + wire.ctx_enum(1, enable_disable)
    if pw is not None:
        data += wire._tag_head(2, 1, len(pw) + 1) + b'\x00' + pw
    return frame(wire.conf_req(invoke, 17, data))


def gen_dcc(seed, idx):
    """A valid DeviceCommunicationControl 'disable' for one minute, then damaged DeviceCommunicationControl frames (wrong /
    cut / missing password, undefined values, truncations) and other garbage while the device is silent; when the minute is
    over the device must be talking again."""
    rng = rng_for(seed, 'C10dcc', idx)
    frames = [{'frame': dcc_frame(60, 1, minutes=1).hex(), 'label': 'valid:DCC-disable-1min', 'gap': 0}]
    for k in range(rng.randint(1, 6)):
        u = rng.random()
        if u < 0.6:
            base = dcc_frame(61 + k, rng.choice([0, 0, 1]), minutes=rng.choice([None, None, 1, 2]))
            muts = mutations(base, False)
            lab, m = muts[rng.randrange(len(muts))]
            if rng.random() < 0.6:
                m = fix_bvll_len(m)
            frames.append({'frame': m.hex(), 'label': 'mut:DCC:' + lab, 'gap': rng.choice([0, 0.5, 3.0, 11.0])})
        elif u < 0.8:
            frames.append({'frame': dcc_frame(61 + k, rng.choice([0, 1]), minutes=rng.choice([None, 1]), password=rng.choice(['xyzzx', 'x', '', None])).hex(),
                           'label': 'DCC:wrong-password', 'gap': rng.choice([0, 0.5, 3.0])})
        else:
            g, lab = random_garbage(rng)
            frames.append({'frame': g.hex(), 'label': lab, 'gap': rng.choice([0, 0.5, 3.0])})
    return {'prop': 'C10', 'seed': H(seed, 'C10dcc', idx) & 0x7fffffff, 'dcc': True, 'frames': frames}


def execute_dcc(desc):
    run = Run(desc)
    w = run.w
    out = []
    t_dis = None
    unknown = False
    for k, item in enumerate(desc['frames']):
        fr = bytes.fromhex(item['frame'])
        if item.get('gap'):
            run.quiesce(item['gap'])
            target = run._t_last + item['gap']
            if clock.now < target:
                clock.now = target
        mark = w.seq
        run.send(fr, item.get('label', ''))
        run.quiesce(0.2)
        # did the device acknowledge a DeviceCommunicationControl request?
        acked = False
        for (seq, t, octets) in run.rx:
            if seq > mark:
                v = wire.decode_bvll(octets)
                n = wire.decode_npdu(v['npdu']) if v and 'npdu' in v else None
                a = wire.decode_apdu(n['apdu']) if n and not n['netmsg'] else None
                if a is not None and a['type'] == wire.T_SACK and a.get('service') == 17:
                    acked = True
        if k == 0:
            if not acked:
                out.append({'clause': 'C10.a', 'detail': 'the valid timed DeviceCommunicationControl disable was not acknowledged', 'sigkey': 'dcc-not-acked', 'sig': {'kind': 'dcc-not-acked'}})
                run.finish()
                return run, out
            t_dis = w.now
        elif acked:
            # a damaged frame that is still a VALID request changed the state legitimately (enable, another disable ...)
            unknown = True
            w.probe('dcc_episode_state_changed_by_valid_mutant')
    # let the minute run out
    run.quiesce(75.0)
    target = t_dis + 66.0
    if clock.now < w.t0 + target:
        clock.now = w.t0 + target
        run.quiesce(1.0)
    errs = loop_errors()
    if not unknown:
        state = run.stack.smap.dccEnableDisable
        if state != 'enable':
            out.append({'clause': 'C10.d', 'detail': 'the device was told to be silent for ONE minute; %.0f s later, after %d damaged datagrams none of which it acknowledged, its '
                        'communication state is still %r; swallowed exceptions %r' % (w.now - t_dis, len(desc['frames']) - 1, state, errs),
                        'sigkey': 'dcc-timed-disable-never-ends', 'sig': {'kind': 'dcc-timed-disable-never-ends'}})
        else:
            follow_up(run, out, {})
    r = run.residue()
    if r:
        out.append({'clause': 'C10.b', 'detail': 'after the episode the device holds %r; swallowed exceptions %r' % (r, errs),
                    'sigkey': 'residue:' + ','.join(sorted(r)), 'sig': {'kind': 'residue', 'what': sorted(r), 'errors': errs}})
    run.finish()
    return run, out


def single_descs(name, full):
    fr = VALID[name]
    out = [{'prop': 'C10', 'seed': 0, 'service': name, 'label': 'identity', 'frame': fr.hex()}]
    for lab, m in mutations(fr, full):
        out.append({'prop': 'C10', 'seed': 0, 'service': name, 'label': lab, 'frame': m.hex()})
        m2 = fix_bvll_len(m)
        if m2 != m:
            out.append({'prop': 'C10', 'seed': 0, 'service': name, 'label': lab + '+len', 'frame': m2.hex()})
    return out


def _account(agg, desc, r):
    agg.evals += 1
    agg.sim_seconds += r['sim']
    for k, v in r['probes'].items():
        agg.stat('probe.' + k, v)
    for e in errlog.records:
        agg.stat('looperr.%s:%s:%s' % (e[1], e[2], e[3]))
    if 'frames' in desc:
        agg.stat('fault.garbage_datagrams', sum(1 for f in desc['frames'] if not f.get('valid')))
        agg.stat('probe.valid_in_batch', sum(1 for f in desc['frames'] if f.get('valid')))
        agg.sigs.add(H(tuple(f['frame'] for f in desc['frames'])))
    else:
        agg.stat('fault.corrupt.' + desc['label'].split('@')[0].split('+')[0])
        agg.sigs.add(H(desc['frame']))
    if len(agg.samples) < 2:
        agg.samples.append({'desc': desc, 'replies_received': r['nrx'], 'events_tail': r['events_tail'][-8:]})
    for v in r['violations']:
        agg.violation(v, desc)


def run_unit(unit):
    agg = Agg()
    if unit['kind'] == 'single':
        descs = single_descs(unit['service'], unit['full'])
        for i, d in enumerate(descs):
            if i % unit['mod'] == unit['rem']:
                _account(agg, d, execute_desc(d))
        agg.cells += 1
    elif unit['kind'] == 'dcc':
        for idx in range(unit['start'], unit['start'] + unit['count']):
            d = gen_dcc(unit['seed'], idx)
            _account(agg, d, execute_desc(d))
    elif unit['kind'] == 'conv':
        for idx in range(unit['start'], unit['start'] + unit['count']):
            d = gen_conv(unit['seed'], idx)
            _account(agg, d, execute_desc(d))
    else:
        for idx in range(unit['start'], unit['start'] + unit['count']):
            d = gen_batch(unit['seed'], idx)
            _account(agg, d, execute_desc(d))
    return agg.result()


QUICK_SERVICES = ['ReadProperty', 'WriteProperty', 'SubscribeCOV', 'ReadPropertyMultiple', 'UnknownService29', 'WhoIs']


def units(tier, seed):
    us = []
    full = tier == 'thorough'
    names = sorted(VALID)      # every service in both tiers (the quick tier uses the smaller substitution set)
    for name in names:
        mod = 8 if full else 4
        for rem in range(mod):
            us.append({'kind': 'single', 'must': True, 'service': name, 'full': full, 'mod': mod, 'rem': rem})
    n = 12000 if full else 4000
    for k in range(n):
        us.append({'kind': 'batch', 'seed': seed, 'start': k * 25, 'count': 25})
        if k % 2 == 0:
            us.append({'kind': 'conv', 'seed': seed, 'start': (k // 2) * 20, 'count': 20})
        if k % 8 == 1:
            us.append({'kind': 'dcc', 'seed': seed, 'start': (k // 8) * 20, 'count': 20})
    return us


def selftest_descs(tier, seed):
    return [gen_batch(seed, 6000003 + i) for i in range(3)] + [single_descs('ReadProperty', False)[17]]


def evidence(tier, seed, total):
    return {
        'level': LEVEL,
        'coverage': {
            'rule': '[additions: all services are mutated in both tiers; segmented conversations (answers of 8+ segments of 50 octets, scripts of right and odd segment-acks, duplicated requests, aborts, silence, up to four requesters incl. stations 5:05 and 6:05 behind a router host with the same invoke id); timed DeviceCommunicationControl episodes (disable for one minute, damaged DCC frames meanwhile, the device must talk again afterwards); the device application remembers I-Am announcements and valid requests come with and without segmented-response-accepted; in-run invariant: a transaction sits in the scheduler at most once and never after it finished] Enumeration (corruption faults): for one valid frame of each listed service, EVERY single-octet substitution from a value set '
                    '(0x00, 0xFF, bit flips 0x01/0x08/0x10/0x80, +1, opening/closing tag octets of contexts 0-3, length escapes 0x05/0xFE, 0x55), EVERY truncation '
                    'and EVERY one-octet insertion, each also with the BVLL length re-written so the inner layers are reached; every mutant runs in a fresh '
                    'world (complete BACnet/IP device on the in-memory datagram director) followed by two reference ReadProperty requests. Exploration: '
                    'seeded batches of 2-12 datagrams (valid requests of every service with unique invoke ids, random octets behind valid BVLL / NPDU / APDU '
                    'headers, network messages, single and double mutants) delivered in the same loop batch or 1 ms / 1 s apart. A datagram carries a reply '
                    'obligation only if the harness\' own decoder finds it well framed (Original-Unicast with right length, NPDU version 1 without '
                    'DNET/SNET/network-message/reserved bits, confirmed request, unsegmented, >= 4 header octets). Distinct = distinct datagram (sequences), set of hashes; '
                    'every case is non-trivial (each delivers at least one datagram to the device).',
            'enumerated_cells': total['cells'],
            'exhaustive': True,
            'exhaustive_scope': 'the single-octet substitution/truncation/insertion sets of the listed frames only',
            'components_real': ['bvllservice.UDPMultiplexer/AnnexJCodec/BIPSimple', 'bvll/npdu/apdu codecs', 'netservice.NetworkServiceAccessPoint', 'appservice (SMAP/ServerSSM/ASAP)',
                                'app.ApplicationIOController', 'service.object/device/cov handlers', 'object.py property machinery', 'core.run_once/deferred', 'task.TaskManager'],
            'components_stub': ['UDP sockets / udp.UDPDirector (in-memory director that keeps the deferred hand-off of handle_read)', 'wall clock', 'IP subnet (vlan.IPNetwork with fault layer)'],
        },
        'assumptions': ['the harness classifier of "well framed" (bacsim/props/c10.py:classify) is deliberately narrow: frames outside it carry no reply obligation',
                        'a segmented ComplexAck counts as one reply', 'DeviceCommunicationControl accepted with the right password legitimately silences the device (exempt from C10.d)',
                        'subscription lifetime and DCC duration timers are legitimate state, only transaction (SSM) timers count as residue'],
    }
