"""
C15 -- property reads and writes over the wire are consistent, typed,
all-or-nothing.  A device stack serves seeded sequences of ReadProperty /
WriteProperty / ReadPropertyMultiple from real client stacks over a faulty
LAN; a reference object store is applied at each request the serving
application is indicated with (the linearisation point), and the reply the
device then emits must match it.
"""

import copy
import struct

from .. import env, wire
from ..env import clock, tm, errlog
from ..world import World, H, U
from ..driver import Agg
from ..txngen import rng_for, fault_profile

from ..stacks import VlanStack, SimDevice, VENDOR
from ..txngen import stack_cfg

import bacpypes.core as core
import bacpypes.object as bobj
from bacpypes.app import Application
from bacpypes.pdu import Address
from bacpypes.object import register_object_type, registered_object_types, WritableProperty, Property, Object
from bacpypes.service.object import ReadWritePropertyServices, ReadWritePropertyMultipleServices
from bacpypes.service.cov import ChangeOfValueServices
from bacpypes.apdu import ReadPropertyRequest, ReadPropertyACK, WritePropertyRequest, ReadPropertyMultipleRequest, ReadPropertyMultipleACK, \
    ReadAccessSpecification, PropertyReference, SimpleAckPDU, ComplexAckPDU, ErrorPDU, RejectPDU, AbortPDU, Error
from bacpypes.primitivedata import Atomic, Null, Boolean, Unsigned, Integer, Real, Double, OctetString, CharacterString, BitString, Enumerated, \
    Date, Time, ObjectIdentifier, Tag, TagList
from bacpypes.constructeddata import Any, Array, List, ArrayOf
from bacpypes.basetypes import PropertyIdentifier, ErrorClass, ErrorCode

ID = 'C15'
LEVEL = 'exploration'
BUDGET = {'quick': 55, 'thorough': 780}
SHRINK_LISTS = [('faults', 'list'), ('ops',)]

MODEL_CLASSES = ['AnalogValueObject', 'BinaryValueObject', 'MultiStateValueObject', 'CharacterStringValueObject', 'IntegerValueObject',
                 'PositiveIntegerValueObject', 'LargeAnalogValueObject', 'AnalogInputObject', 'BinaryInputObject', 'MultiStateInputObject',
                 'OctetStringValueObject', 'BitStringValueObject', 'DateValueObject', 'TimeValueObject']
COMPUTED = {'propertyList', 'objectList', 'localDate', 'localTime', 'protocolServicesSupported', 'activeCovSubscriptions', 'objectIdentifier',
            'objectType', 'objectName'}


# ------------------------------------------------------------------ value specs (JSON-able) <-> python values

def f32(x):
    return struct.unpack('!f', struct.pack('!f', x))[0]


def kind_of(dt):
    """category of a property datatype for the generator / model"""
    if issubclass(dt, Atomic):
        for k, c in (('bool', Boolean), ('uns', Unsigned), ('int', Integer), ('real', Real), ('double', Double), ('octets', OctetString),
                     ('str', CharacterString), ('bits', BitString), ('enum', Enumerated), ('date', Date), ('time', Time), ('objid', ObjectIdentifier),
                     ('null', Null)):
            if issubclass(dt, c):
                return k
        return None
    if issubclass(dt, Array) and getattr(dt, 'subtype', None) is not None and issubclass(dt.subtype, Atomic):
        k = kind_of(dt.subtype)
        return 'array:' + k if k else None
    if issubclass(dt, List) and getattr(dt, 'subtype', None) is not None and issubclass(dt.subtype, Atomic):
        k = kind_of(dt.subtype)
        return 'list:' + k if k else None
    return None


def gen_value(rng, dt, kind=None):
    k = kind or kind_of(dt)
    if k == 'bool':
        return ['bool', rng.random() < 0.5]
    if k == 'uns':
        hi = 65535 if getattr(dt, '_high_limit', None) is None else dt._high_limit
        lo = getattr(dt, '_low_limit', 0) or 0
        return ['uns', rng.choice([lo, lo + 1, min(hi, 255), min(hi, 256), rng.randint(lo, min(hi, 100000))])]
    if k == 'int':
        return ['int', rng.choice([0, -1, 127, -128, 128, rng.randint(-100000, 100000)])]
    if k == 'real':
        return ['real', f32(rng.choice([0.0, 1.0, -1.5, 72.5, rng.uniform(-1000, 1000)]))]
    if k == 'double':
        return ['double', rng.choice([0.0, 1.25, rng.uniform(-1e6, 1e6)])]
    if k == 'octets':
        return ['octets', bytes(rng.randrange(256) for _ in range(rng.randint(0, 12))).hex()]
    if k == 'str':
        return ['str', ''.join(rng.choice('abcXYZ 09-_é') for _ in range(rng.randint(0, 14)))]
    if k == 'bits':
        n = getattr(dt, 'bitLen', None) or rng.randint(0, 12)
        return ['bits', [rng.randint(0, 1) for _ in range(n)]]
    if k == 'enum':
        names = sorted(dt.enumerations)
        return ['enum', rng.choice(names)] if names else ['enum', rng.randint(0, 3)]
    if k == 'date':
        y = rng.randint(90, 150)
        m = rng.randint(1, 12)
        d = rng.randint(1, 28)
        import datetime
        dow = datetime.date(1900 + y, m, d).weekday() + 1
        return ['date', [y, m, d, dow]]
    if k == 'time':
        return ['time', [rng.randint(0, 23), rng.randint(0, 59), rng.randint(0, 59), rng.randint(0, 99)]]
    if k == 'objid':
        return ['objid', [rng.choice(['analogValue', 'binaryValue', 'device']), rng.randint(0, 4194302)]]
    if k and k.startswith('array:'):
        n = dt.fixed_length if getattr(dt, 'fixed_length', None) is not None else rng.randint(0, 4)
        return ['array', [gen_value(rng, dt.subtype) for _ in range(n)]]
    if k and k.startswith('list:'):
        return ['list', [gen_value(rng, dt.subtype) for _ in range(rng.randint(0, 4))]]
    return None


def to_py(spec):
    t, v = spec[0], spec[1] if len(spec) > 1 else None
    if t in ('bool', 'uns', 'int', 'real', 'double', 'str', 'enum'):
        return v
    if t == 'octets':
        return bytes.fromhex(v)
    if t == 'bits':
        return list(v)
    if t in ('date', 'time'):
        return tuple(v)
    if t == 'objid':
        return (v[0], v[1])
    if t in ('array', 'list'):
        return [to_py(x) for x in v]
    if t == 'null':
        return ()
    raise ValueError(t)


ATOM_CLASS = {'bool': Boolean, 'uns': Unsigned, 'int': Integer, 'real': Real, 'double': Double, 'octets': OctetString, 'str': CharacterString,
              'bits': BitString, 'enum': Enumerated, 'date': Date, 'time': Time, 'objid': ObjectIdentifier, 'null': Null}


def canon(dt, spec, element=False):
    """canonical tag octets of a value of the property's datatype (bacpypes encoder, harness side)"""
    a = Any()
    v = to_py(spec)
    if issubclass(dt, (Array, List)) and not element:
        a.cast_in(dt(v))
    elif issubclass(dt, (Array, List)):
        a.cast_in(dt.subtype(v))
    else:
        a.cast_in(dt(v))
    return any_bytes(a)


def any_bytes(a):
    out = bytearray()
    for tag in a.tagList:
        from bacpypes.pdu import PDUData
        p = PDUData()
        tag.encode(p)
        out += p.pduData
    return bytes(out)


def foreign_any(spec):
    """Any carrying an application-tagged atomic value of the spec's own kind (used for wrong-typed writes)"""
    a = Any()
    a.cast_in(ATOM_CLASS[spec[0]](to_py(spec)))
    return a


# ------------------------------------------------------------------ applications

class DevApp(Application, ReadWritePropertyServices, ReadWritePropertyMultipleServices):
    _startup_disabled = True

    def __init__(self, world, cfg, device):
        Application.__init__(self, device)
        self.world = world
        self.label = cfg['name']
        self.srv_log = []       # ('ind', seq, peer, invoke, reqobj) / ('resp', seq, peer, invoke, apdu)

    def indication(self, apdu):
        seq = self.world.log('srv_ind', self.label, str(apdu.pduSource), apdu.apduInvokeID, type(apdu).__name__)
        self.srv_log.append(('ind', seq, str(apdu.pduSource), apdu.apduInvokeID, apdu))
        Application.indication(self, apdu)


class NeighbourApp(Application, ChangeOfValueServices):
    """another device in the same process that offers SubscribeCOV (the service installs a computed property on ITS device
    object); it takes no part in the traffic"""
    _startup_disabled = True

    def __init__(self, world, cfg, device):
        Application.__init__(self, device)
        ChangeOfValueServices.__init__(self)


class CliApp(Application):
    _startup_disabled = True

    def __init__(self, world, cfg, device):
        Application.__init__(self, device)
        self.world = world
        self.label = cfg['name']
        self.confs = []
        self.on_conf = None

    def confirmation(self, apdu):
        seq = self.world.log('cli_conf', self.label, getattr(apdu, 'apduInvokeID', None), type(apdu).__name__)
        self.confs.append((seq, self.world.now, apdu))
        if self.on_conf:
            self.on_conf(apdu)


_subclass_cache = {}
EXTRA_DT = {'real': Real, 'uns': Unsigned, 'str': CharacterString}


def declared_props(cls):
    """property table of a class recomputed from the static `properties` lists along the MRO (what the class DECLARES),
    independent of the dictionaries the library keeps and mutates at run time"""
    d = {}
    for c in cls.__mro__:
        for prop in getattr(c, 'properties', []):
            if prop.identifier not in d:
                d[prop.identifier] = prop
    if 'objectType' not in d:
        d['objectType'] = Property('objectType', bobj.ObjectType, None, optional=False, mutable=False)
    return d


def make_class(clsname, writable):
    base = getattr(bobj, clsname)
    key = (clsname, tuple(sorted(writable)))
    sub = _subclass_cache.get(key)
    if sub is None:
        props = []
        for pid in sorted(writable):
            p = base._properties[pid]
            props.append(WritableProperty(pid, p.datatype, optional=p.optional))
        sub = type('W' + clsname, (base,), {'properties': props})
        _subclass_cache[key] = sub
    register_object_type(sub, vendor_id=VENDOR)
    return sub


# ------------------------------------------------------------------ execution

class Run:
    def __init__(self, desc):
        self.desc = desc
        w = World(desc['seed'], faults=desc.get('faults'), frame_cap=40000, tick_cap=600000,
                  latency=desc.get('latency', 0.0), jitter=desc.get('jitter', 0.0))
        self.w = w
        lan = w.new_network('lan')
        if desc.get('cov_neighbour') == 'before':
            self.neighbour = VlanStack(w, stack_cfg('nb', 21, 'server'), lan, app_class=NeighbourApp)
        self.dev = VlanStack(w, stack_cfg('dev', 20, 'server', maxApdu=desc.get('dev_apdu', 1024), retries=2, tout=2000, tseg=500), lan, app_class=DevApp)
        if desc.get('cov_neighbour') == 'after':
            self.neighbour = VlanStack(w, stack_cfg('nb', 21, 'server'), lan, app_class=NeighbourApp)
        self.objs = {}
        self.schema = {}
        for o in sorted(desc['objects'], key=lambda o_: o_.get('order', 1)):
            if o.get('cmd'):
                from .c17 import get_class
                cls = get_class(o['cls'])
            else:
                cls = make_class(o['cls'], o.get('writable', []))
            kwargs = {'objectIdentifier': (cls.objectType, o['inst']), 'objectName': o['name']}
            obj = cls(**kwargs)
            for pid, spec in sorted(o.get('init', {}).items()):
                dt = cls._properties[pid].datatype
                v = to_py(spec)
                if issubclass(dt, Array):
                    v = dt(v)       # arrays are held as ArrayOf instances (index 0 = length)
                obj.WriteProperty(pid, v, direct=True)
            # somebody watches changes of some properties (the library's property monitors, as change-of-value detection
            # and the local schedule use them): a watched property is written and read like any other
            for pid in o.get('monitored', []):
                obj._property_monitors[pid].append(lambda old, new, _w=w, _n=o['name'], _p=pid: _w.probe('monitor_called'))
            # a proprietary property added to THIS instance only (Object.add_property); siblings of the class must not get it
            for ex in o.get('extra', []):
                obj.add_property(Property(ex['pid'], EXTRA_DT[ex['value'][0]], optional=True, mutable=True))
                obj.WriteProperty(ex['pid'], to_py(ex['value']), direct=True)
            self.dev.app.add_object(obj)
            self.objs[o['name']] = obj
        # the device object itself (also addressed by the wildcard instance 4194303)
        self.objs['DEV'] = self.dev.device
        # hook the responses the device emits (encoded service data)
        smap = self.dev.smap
        orig = smap.sap_confirmation

        def sap_confirmation(apdu, _orig=orig):
            seq = w.log('srv_resp', str(apdu.pduDestination), apdu.apduInvokeID, type(apdu).__name__, bytes(apdu.pduData).hex() if apdu.pduData else '')
            self.dev.app.srv_log.append(('resp', seq, str(apdu.pduDestination), apdu.apduInvokeID, apdu))
            _orig(apdu)
        smap.sap_confirmation = sap_confirmation
        self.clients = []
        for i in range(desc.get('nclients', 1)):
            c = VlanStack(w, stack_cfg('c%d' % i, 1 + i, 'client', maxApdu=desc.get('cli_apdu', 1024), retries=2, tout=2000, tseg=500), lan, app_class=CliApp)
            self.clients.append(c)
        self.submitted = {}     # (client addr, invoke) -> list of (seq, op index)
        self.build_errors = []
        self.queues = [[] for _ in self.clients]
        for i, op in enumerate(desc['ops']):
            self.queues[op.get('c', 0) % len(self.clients)].append(i)
        for ci, c in enumerate(self.clients):
            c.app.on_conf = (lambda apdu, ci=ci: self.next_op(ci))

    def build_request(self, op):
        k = op['op']
        objid = tuple(op['obj']) if 'obj' in op else None
        if k == 'rp':
            r = ReadPropertyRequest(objectIdentifier=objid, propertyIdentifier=op['prop'])
            if op.get('idx') is not None:
                r.propertyArrayIndex = op['idx']
        elif k == 'wp':
            r = WritePropertyRequest(objectIdentifier=objid, propertyIdentifier=op['prop'])
            if op.get('idx') is not None:
                r.propertyArrayIndex = op['idx']
            if op.get('prio') is not None:
                r.priority = op['prio']
            r.propertyValue = self.build_any(op)
        elif k == 'rpm':
            specs = []
            for s in op['specs']:
                refs = []
                for ref in s['refs']:
                    pr = PropertyReference(propertyIdentifier=ref['prop'])
                    if ref.get('idx') is not None:
                        pr.propertyArrayIndex = ref['idx']
                    refs.append(pr)
                specs.append(ReadAccessSpecification(objectIdentifier=tuple(s['obj']), listOfPropertyReferences=refs))
            r = ReadPropertyMultipleRequest(listOfReadAccessSpecs=specs)
        else:
            raise ValueError(k)
        r.pduDestination = Address(20)
        return r

    def build_any(self, op):
        if op['value'][0] == 'null':
            a = Any()
            a.cast_in(Null(()))
            return a
        if op.get('wrong'):
            return foreign_any(op['value'])
        dt = self.datatype_of(op)
        a = Any()
        v = to_py(op['value'])
        if dt is None:
            return foreign_any(op['value'])
        if issubclass(dt, (Array, List)) and op.get('idx') not in (None,):
            if op['idx'] == 0:
                a.cast_in(Unsigned(v))
            else:
                a.cast_in(dt.subtype(v))
        else:
            a.cast_in(dt(v))
        return a

    def datatype_of(self, op):
        if op['obj'][0] == 'device':
            p = self.dev.device._properties.get(op['prop'])
            return p.datatype if p else None
        for o in self.desc['objects']:
            if [self.objs[o['name']].objectIdentifier[0], o['inst']] == [op['obj'][0], op['obj'][1]]:
                p = self.objs[o['name']]._properties.get(op['prop'])
                return p.datatype if p else None
        return None

    def next_op(self, ci):
        q = self.queues[ci]
        if not q:
            return
        i = q.pop(0)
        op = self.desc['ops'][i]
        c = self.clients[ci]
        w = self.w
        gap = op.get('gap', 0.0)

        def go():
            try:
                req = self.build_request(op)
            except Exception as e:
                # the harness could not even express the request (e.g. a value the client-side encoder refuses)
                w.log('build_exc', i, type(e).__name__)
                w.probe('build_exc')
                self.build_errors.append((i, repr(e)))
                self.next_op(ci)
                return
            s0 = w.log('submit', c.name, i, op['op'])
            try:
                c.app.request(req)
            except Exception as e:
                w.log('submit_exc', i, type(e).__name__)
                self.next_op(ci)
                return
            self.submitted.setdefault((str(c.address), req.apduInvokeID), []).append((s0, i))
        if gap > 0:
            w.after(gap, go)
        else:
            # never re-enter the stack from inside a confirmation callback
            w.after(0.0, go)

    def run(self):
        for ci in range(len(self.clients)):
            self.w.at(0.0, self.next_op, ci)
        res = self.w.run(until=self.desc.get('horizon', 5000.0))
        self.errors = list(errlog.records)
        tm.tasks = []
        core.deferredFns = []
        return res


# ------------------------------------------------------------------ reference store + oracle

ERR = lambda c, k: ('error', c, k)
WRONG_TYPE_SET = {('error', 'property', 'invalidDataType'), ('reject', 'invalidParameterDatatype'), ('reject', 'invalidTag'),
                  ('error', 'property', 'valueOutOfRange'), ('reject', 'parameterOutOfRange'), ('reject', 'inconsistentParameters')}


def DEVICE_PROPS(run):
    """plain stored properties of the device object the harness configured itself"""
    cfg = run.dev.cfg
    return {'vendorIdentifier': ['uns', VENDOR], 'maxApduLengthAccepted': ['uns', cfg.get('maxApdu', 1024)], 'numberOfApduRetries': ['uns', cfg.get('retries', 3)],
            'apduTimeout': ['uns', cfg.get('tout', 3000)], 'apduSegmentTimeout': ['uns', cfg.get('tseg', 1000)], 'maxSegmentsAccepted': ['uns', cfg.get('maxSegs', 64)],
            'segmentationSupported': ['enum', cfg.get('seg', 'segmentedBoth')]}


class Store:
    """dict (object name, property) -> value spec, plus the declarative schema from the property tables"""

    def __init__(self, run):
        self.run = run
        self.vals = {}
        self.unmodelled = set()     # had a value once, the harness lost track of it (array grown with default elements)
        self.by_id = {}
        self.cmd = {}
        self.schema = {}
        for o in run.desc['objects']:
            obj = run.objs[o['name']]
            self.by_id[(obj.objectIdentifier[0], obj.objectIdentifier[1])] = (o, obj)
            for pid, spec in o.get('init', {}).items():
                self.vals[(o['name'], pid)] = spec
            self.schema[o['name']] = declared_props(type(obj))
            for ex in o.get('extra', []):
                self.schema[o['name']][ex['pid']] = Property(ex['pid'], EXTRA_DT[ex['value'][0]], optional=True, mutable=True)
                self.vals[(o['name'], ex['pid'])] = ex['value']
            if o.get('cmd'):
                # 16 command slots of a commandable analog value; the default is what the object holds after construction
                self.cmd[o['name']] = {'slots': [None] * 16, 'default': ['real', float(obj.relinquishDefault)]}
        dev = run.dev.device
        devo = {'name': 'DEV', 'cls': 'LocalDeviceObject', 'inst': dev.objectIdentifier[1], 'init': DEVICE_PROPS(run)}
        self.by_id[('device', dev.objectIdentifier[1])] = (devo, dev)
        self.device_key = ('device', dev.objectIdentifier[1])
        for pid, spec in devo['init'].items():
            self.vals[('DEV', pid)] = spec

    def props(self, o, obj):
        """the properties an object has: what its class declares plus what the harness added to that instance (the device
        object keeps the library's own table: services add properties to it)"""
        return self.schema.get(o['name']) or obj._properties

    def lookup(self, objid):
        t, n = objid
        if t == 'device' and n == 4194303:
            return self.by_id[self.device_key]
        if isinstance(t, int):
            for (tt, nn), v in self.by_id.items():
                if nn == n and bobj.ObjectType.enumerations.get(tt) == t:
                    return v
        return self.by_id.get((t, n))

    def read(self, objid, prop, idx):
        """expected result of reading: ('value', octets) | ('unmodelled',) | ('error', class, code)"""
        ent = self.lookup(objid)
        if ent is None:
            return ERR('object', 'unknownObject')
        o, obj = ent
        p = self.props(o, obj).get(prop)
        if p is None:
            return ERR('property', 'unknownProperty')
        key = (o['name'], prop)
        if o['name'] == 'DEV' and prop == 'activeCovSubscriptions':
            # this device offers no SubscribeCOV: the (optional) property has no value, whatever a neighbour device offers
            return ERR('property', 'unknownProperty')
        if o['name'] in self.cmd and prop in ('presentValue', 'priorityArray'):
            return self._cmd_read(self.cmd[o['name']], prop, idx)
        if key in self.unmodelled:
            return ('unmodelled',)
        if prop in COMPUTED or key not in self.vals:
            # computed / not initialised by the harness: no model of the value (absent values read as unknownProperty)
            return ('unmodelled',)
        dt = p.datatype
        spec = self.vals[key]
        if idx is not None:
            if not issubclass(dt, Array):
                return ERR('property', 'propertyIsNotAnArray')
            n = len(spec[1])
            if idx == 0:
                a = Any()
                a.cast_in(Unsigned(n))
                return ('value', any_bytes(a))
            if 1 <= idx <= n:
                return ('value', canon(dt, spec[1][idx - 1], element=True))
            return ERR('property', 'invalidArrayIndex')
        return ('value', canon(dt, spec))

    def write(self, op):
        """returns set of acceptable outcomes; applies the change when 'ack' is the only acceptable one"""
        ent = self.lookup(tuple(op['obj']))
        causes = set()
        if ent is None:
            return {ERR('object', 'unknownObject')}, None
        o, obj = ent
        p = self.props(o, obj).get(op['prop'])
        if p is None:
            return {ERR('property', 'unknownProperty')}, None
        key = (o['name'], op['prop'])
        if o.get('cmd') and op['prop'] == 'presentValue' and op.get('idx') is None and not op.get('wrong') \
                and op['value'][0] in ('real', 'null') and (op.get('prio') is None or 1 <= op['prio'] <= 16):
            # a command (or relinquish) at a priority: always accepted, lands in its slot
            return {('ack',)}, ('cmd', o['name'])
        if o.get('cmd') and op.get('idx') is None:
            return {'*'}, None
        if key in self.unmodelled:
            return {'*'}, None
        if key not in self.vals and op['prop'] not in COMPUTED:
            # the property has no value: the library answers unknown-property before anything else
            causes.add(ERR('property', 'unknownProperty'))
        if not p.mutable:
            causes.add(ERR('property', 'writeAccessDenied'))
        dt = p.datatype
        idx = op.get('idx')
        if idx is not None and not issubclass(dt, Array):
            causes.add(ERR('property', 'propertyIsNotAnArray'))
        if idx is not None and issubclass(dt, Array) and key in self.vals:
            n = len(self.vals[key][1])
            if idx > n or idx < 0:
                causes.add(ERR('property', 'invalidArrayIndex'))
        if idx == 0 and issubclass(dt, Array) and getattr(dt, 'fixed_length', None) is not None and not op.get('wrong') \
                and op['value'][0] == 'uns' and op['value'][1] != dt.fixed_length:
            causes.add(ERR('property', 'valueOutOfRange'))
        if op.get('wrong'):
            causes |= WRONG_TYPE_SET
        if op['prop'] in COMPUTED:
            causes.add(ERR('property', 'writeAccessDenied'))
        if causes:
            return causes, None
        return {('ack',)}, key

    def _cmd_read(self, m, prop, idx):
        from .c17 import slot_bytes, pa_bytes
        if prop == 'presentValue':
            if idx is not None:
                return ERR('property', 'propertyIsNotAnArray')
            win = next((x for x in m['slots'] if x is not None), m['default'])
            return ('value', slot_bytes('real', win))
        if idx is None:
            return ('value', pa_bytes('real', m['slots']))
        if idx == 0:
            a = Any()
            a.cast_in(Unsigned(16))
            return ('value', any_bytes(a))
        if 1 <= idx <= 16:
            return ('value', slot_bytes('real', m['slots'][idx - 1]))
        return ERR('property', 'invalidArrayIndex')

    def apply(self, op, key):
        if key[0] == 'cmd':
            m = self.cmd[key[1]]
            m['slots'][(op.get('prio') or 16) - 1] = None if op['value'][0] == 'null' else copy.deepcopy(op['value'])
            return
        dt = self.props(*self.lookup(tuple(op['obj'])))[op['prop']].datatype
        idx = op.get('idx')
        if idx is None:
            self.vals[key] = copy.deepcopy(op['value'])
        elif idx == 0:
            cur = self.vals[key]
            n = op['value'][1]
            lst = list(cur[1])[:n]
            # new elements: the subtype's default value; the harness cannot know it generically -> unmodelled afterwards
            if n > len(cur[1]):
                self.vals.pop(key)
                self.unmodelled.add(key)
            else:
                self.vals[key] = [cur[0], lst]
        else:
            cur = copy.deepcopy(self.vals[key])
            cur[1][idx - 1] = copy.deepcopy(op['value'])
            self.vals[key] = cur


def classify_response(apdu):
    """outcome tuple of a server response PDU (encoded form as handed to the SMAP)"""
    if isinstance(apdu, SimpleAckPDU):
        return ('ack',)
    if isinstance(apdu, RejectPDU):
        from bacpypes.apdu import RejectReason
        r = apdu.apduAbortRejectReason
        return ('reject', RejectReason(r).value if not isinstance(r, str) else r)
    if isinstance(apdu, AbortPDU):
        return ('abort', apdu.apduAbortRejectReason)
    if isinstance(apdu, ErrorPDU):
        e = Error()
        try:
            e.decode(copy.deepcopy(apdu))
        except Exception:
            return ('error', '?', '?')
        return ('error', str(e.errorClass), str(e.errorCode))
    if isinstance(apdu, ComplexAckPDU):
        return ('cack',)
    return ('other',)


def check(run, res):
    out = []
    w = run.w
    desc = run.desc
    seen = set()

    def viol(clause, what, detail, **sig):
        if (clause, what) in seen:
            return
        seen.add((clause, what))
        s = {'kind': what}
        s.update(sig)
        out.append({'clause': clause, 'detail': detail, 'sigkey': what, 'sig': s})

    if res == 'budget':
        viol('C15.a', 'budget', 'run exceeded its frame/tick budget')
        return out
    store = Store(run)
    log = run.dev.app.srv_log
    i = 0
    n_ind = 0
    while i < len(log):
        kind, seq, peer, inv, apdu = log[i]
        if kind != 'ind':
            i += 1
            continue
        n_ind += 1
        # the response the handler produced synchronously
        resp = None
        if i + 1 < len(log) and log[i + 1][0] == 'resp' and log[i + 1][2] == peer and log[i + 1][3] == inv:
            resp = log[i + 1][4]
            i += 2
        else:
            i += 1
        subs = [x for x in run.submitted.get((peer, inv), []) if x[0] < seq]
        if not subs:
            continue
        opi = subs[-1][1]
        op = desc['ops'][opi]
        if resp is None:
            viol('C15.b', 'no-response', 'op #%d %r was handed to the serving application but it produced no response' % (opi, _short(op)), op=op['op'])
            continue
        got = classify_response(resp)
        if op['op'] == 'rp':
            exp = store.read(tuple(op['obj']), op['prop'], op.get('idx'))
            _cmp_read(viol, op, opi, exp, got, resp, 'C15.c' if op.get('idx') is not None else 'C15.a')
        elif op['op'] == 'wp':
            acceptable, key = store.write(op)
            if '*' in acceptable:
                pass
            elif got not in acceptable:
                if ('ack',) in acceptable:
                    viol('C15.a', 'valid-write-refused', 'op #%d %r is a valid write but was answered %r' % (opi, _short(op), got), got=got[:3], dt=str(op['value'][0]))
                elif got == ('ack',):
                    viol('C15.b', 'invalid-write-acked', 'op #%d %r must be refused (%r) but was acknowledged' % (opi, _short(op), sorted(acceptable)[:3]), why=sorted(acceptable)[0][-1])
                else:
                    viol('C15.b', 'wrong-error', 'op #%d %r was refused with %r, acceptable: %r' % (opi, _short(op), got, sorted(acceptable)), got=got[:3], want=sorted(acceptable)[0][-1])
            if got == ('ack',) and key is not None:
                store.apply(op, key)
        elif op['op'] == 'rpm':
            _check_rpm(viol, store, op, opi, got, resp)
    # at the end: every modelled value must still read back (all-or-nothing / nothing else changed)
    for (oname, pid), spec in sorted(store.vals.items(), key=lambda kv: (kv[0][0], str(kv[0][1]))):
        obj = run.objs[oname]
        dt = (store.schema.get(oname) or obj._properties)[pid].datatype
        try:
            cur = obj.ReadProperty(pid)
            a = Any()
            if issubclass(dt, (Array, List)):
                a.cast_in(dt(list(cur)) if not isinstance(cur, dt) else cur)
            else:
                a.cast_in(dt(cur))
            if any_bytes(a) != canon(dt, spec):
                viol('C15.b', 'store-diverged', 'at the end of the run %s.%s holds %r, the reference store says %r' % (oname, pid, cur, spec), prop=pid)
        except Exception as e:
            viol('C15.b', 'store-unreadable', 'at the end of the run %s.%s cannot be read back: %r' % (oname, pid, e), prop=pid)
    for o in desc['objects']:
        if o.get('cmd'):
            obj = run.objs[o['name']]
            pa = obj.priorityArray
            m = store.cmd[o['name']]['slots']
            for i_ in range(1, 17):
                have = None if pa[i_].null is not None else getattr(pa[i_], 'real', '?')
                want = None if m[i_ - 1] is None else m[i_ - 1][1]
                if have != want:
                    viol('C15.b', 'priority-array-diverged', 'at the end of the run slot %d of %s.priorityArray holds %r, the acknowledged commands (and only they) leave %r there' % (i_, o['name'], have, want))
                    break
    w.probes['indications'] = n_ind
    return out


def _short(op):
    d = {k: v for k, v in op.items() if k not in ('gap', 'c')}
    s = repr(d)
    return s if len(s) < 200 else s[:200] + '...'


def _decode_rp_value(resp):
    ack = ReadPropertyACK()
    ack.decode(copy.deepcopy(resp))
    return any_bytes(ack.propertyValue)


def _cmp_read(viol, op, opi, exp, got, resp, clause):
    if exp[0] == 'unmodelled':
        return
    if exp[0] == 'error':
        if got != exp:
            viol(clause if exp[2] in ('invalidArrayIndex', 'propertyIsNotAnArray') else 'C15.b', 'read-error-mismatch',
                 'op #%d %r expected %r, answered %r' % (opi, _short(op), exp, got), want=exp[2], got=got[:3])
        return
    if got != ('cack',):
        viol(clause, 'read-refused', 'op #%d %r expected a value, answered %r' % (opi, _short(op), got), got=got[:3])
        return
    try:
        val = _decode_rp_value(resp)
    except Exception as e:
        viol(clause, 'read-undecodable', 'op #%d %r: ack could not be decoded: %r' % (opi, _short(op), e))
        return
    if val != exp[1]:
        viol(clause, 'read-value-mismatch', 'op #%d %r returned value octets %s, the reference store expects %s' % (opi, _short(op), val.hex(), exp[1].hex()),
             idx=op.get('idx') is not None)


def _check_rpm(viol, store, op, opi, got, resp):
    if got != ('cack',):
        viol('C15.d', 'rpm-refused', 'op #%d %r answered %r' % (opi, _short(op), got), got=got[:3])
        return
    try:
        ack = ReadPropertyMultipleACK()
        ack.decode(copy.deepcopy(resp))
    except Exception as e:
        viol('C15.d', 'rpm-undecodable', 'op #%d: ReadPropertyMultiple ack could not be decoded: %r' % (opi, e))
        return
    results = ack.listOfReadAccessResults
    if len(results) != len(op['specs']):
        viol('C15.d', 'rpm-result-count', 'op #%d: %d access specs, %d results' % (opi, len(op['specs']), len(results)))
        return
    for s, r in zip(op['specs'], results):
        objid = tuple(s['obj'])
        ent = store.lookup(objid)
        elems = list(r.listOfResults or [])
        by_prop = {}
        for e in elems:
            by_prop.setdefault((str(e.propertyIdentifier), e.propertyArrayIndex), []).append(e)
        for ref in s['refs']:
            pid = ref['prop']
            idx = ref.get('idx')
            if pid in ('all', 'required', 'optional'):
                if ent is None:
                    continue
                o, obj = ent
                want = []
                for propId, prop in store.props(o, obj).items():
                    if propId == 'propertyList':
                        continue
                    if pid == 'required' and prop.optional:
                        continue
                    if pid == 'optional' and not prop.optional:
                        continue
                    want.append(propId)
                have = set(k[0] for k in by_prop)
                extra = have - set(str(x) for x in want)
                # listed selectors may be combined with explicit references in the same spec
                explicit = set(str(x['prop']) for x in s['refs'] if x['prop'] not in ('all', 'required', 'optional'))
                extra -= explicit
                if extra and len([x for x in s['refs'] if x['prop'] in ('all', 'required', 'optional')]) == 1:
                    viol('C15.d', 'rpm-selector-extra', "op #%d: selector '%s' on %r returned properties outside the selection: %r" % (opi, pid, objid, sorted(extra)[:5]), selector=pid)
                for propId in want:
                    exp = store.read(objid, propId, idx)
                    es = by_prop.get((str(propId), idx), [])
                    if exp[0] == 'value' and not es:
                        viol('C15.d', 'rpm-selector-missing', "op #%d: selector '%s' on %r does not return %s although it has a value" % (opi, pid, objid, propId), selector=pid)
                    for e in es:
                        _cmp_rpm_elem(viol, opi, objid, propId, idx, exp, e)
            else:
                exp = store.read(objid, pid, idx)
                es = by_prop.get((str(pid), idx), [])
                if not es:
                    viol('C15.d', 'rpm-element-missing', 'op #%d: no result element for %r %s[%r]' % (opi, objid, pid, idx))
                    continue
                _cmp_rpm_elem(viol, opi, objid, pid, idx, exp, es[0])


def _cmp_rpm_elem(viol, opi, objid, pid, idx, exp, e):
    rr = e.readResult
    if exp[0] == 'unmodelled':
        return
    if exp[0] == 'error':
        if rr.propertyAccessError is None:
            viol('C15.d', 'rpm-elem-value-for-error', 'op #%d: %r %s[%r]: ReadProperty would answer %r, ReadPropertyMultiple embedded a value' % (opi, objid, pid, idx, exp), want=exp[2])
        else:
            got = ('error', str(rr.propertyAccessError.errorClass), str(rr.propertyAccessError.errorCode))
            if got != exp:
                viol('C15.d', 'rpm-elem-error-mismatch', 'op #%d: %r %s[%r]: ReadProperty would answer %r, ReadPropertyMultiple embedded %r' % (opi, objid, pid, idx, exp, got), want=exp[2])
        return
    if rr.propertyValue is None:
        err = rr.propertyAccessError
        viol('C15.d', 'rpm-elem-error-for-value', 'op #%d: %r %s[%r]: ReadProperty would return a value, ReadPropertyMultiple embedded error %s/%s'
             % (opi, objid, pid, idx, getattr(err, 'errorClass', None), getattr(err, 'errorCode', None)))
        return
    val = any_bytes(rr.propertyValue)
    if val != exp[1]:
        viol('C15.d', 'rpm-elem-value-mismatch', 'op #%d: %r %s[%r]: ReadPropertyMultiple returned %s, ReadProperty/reference store %s' % (opi, objid, pid, idx, val.hex(), exp[1].hex()))


def execute_desc(desc):
    run = Run(desc)
    res = run.run()
    v = check(run, res)
    w = run.w
    return {'violations': v, 'digest': w.digest(), 'events_tail': [list(map(str, e)) for e in w.events[-80:] if e[2] in ('submit', 'srv_ind', 'srv_resp', 'cli_conf')][-30:],
            'probes': dict(w.probes), 'sim': w.sim_seconds, 'faults': dict(w.plan.counts), 'errors': run.errors}


freeze = None


# ------------------------------------------------------------------ generator

def gen_desc(seed, idx):
    rng = rng_for(seed, 'C15', idx)
    nobj = rng.randint(2, 6)
    objects = []
    catalog = []     # (obj index, prop id, datatype kind, writable, has_value)
    for k in range(nobj):
        clsname = rng.choice(MODEL_CLASSES)
        base = getattr(bobj, clsname)
        cands = []
        for pid, p in base._properties.items():
            if pid in COMPUTED:
                continue
            kd = kind_of(p.datatype)
            if kd and kd != 'null':
                cands.append((pid, p, kd))
        cands.sort(key=lambda x: x[0])
        rng.shuffle(cands)
        # variable-length arrays and lists first: they are rare and carry the resize / element semantics
        cands.sort(key=lambda x: 0 if (x[2].startswith('list:') or (x[2].startswith('array:') and getattr(x[1].datatype, 'fixed_length', None) is None)) else 1)
        chosen = cands[:rng.randint(2, min(8, len(cands)))]
        writable = [c[0] for c in chosen if rng.random() < 0.6]
        init = {}
        for (pid, p, kd) in chosen:
            if rng.random() < 0.85:
                init[pid] = gen_value(rng, p.datatype)
        o = {'cls': clsname, 'inst': k + 1, 'name': 'o%d' % k, 'writable': writable, 'init': init, 'type': base.objectType}
        objects.append(o)
        for (pid, p, kd) in chosen:
            catalog.append((k, pid, p.datatype, kd, pid in writable, pid in init))
        # a few properties the harness did not touch (read-only, maybe without value)
        for (pid, p, kd) in cands[len(chosen):len(chosen) + 2]:
            catalog.append((k, pid, p.datatype, kd, False, False))
    # a commandable object: writes to its (non-array) present value carrying an array index must be refused and change nothing
    has_cmd = rng.random() < 0.4
    if has_cmd:
        objects.append({'cls': 'AnalogValueCmdObject', 'inst': 77, 'name': 'cmd0', 'writable': [], 'init': {}, 'type': 'analogValue', 'cmd': True})
    # a proprietary property added to ONE instance, and a sibling of the same class that must not have it
    extra_ops = []
    if rng.random() < 0.3:
        k = rng.randrange(nobj)
        o = objects[k]
        sib = {'cls': o['cls'], 'inst': o['inst'] + 50, 'name': o['name'] + 'sib', 'writable': list(o['writable']), 'init': {}, 'type': o['type']}
        if rng.random() < 0.5:
            sib['order'] = 0            # (either may be created first)
        objects.append(sib)
        xpid = rng.choice([600, 1001, 2000])
        xval = rng.choice([['real', 2.5], ['uns', 7], ['str', 'abc']])
        o['extra'] = [{'pid': xpid, 'value': xval}]
        oid, sid = [o['type'], o['inst']], [sib['type'], sib['inst']]
        newval = {'real': ['real', 8.25], 'uns': ['uns', 9], 'str': ['str', 'xyz']}[xval[0]]
        extra_ops = [{'op': 'rp', 'obj': oid, 'prop': xpid}, {'op': 'rp', 'obj': sid, 'prop': xpid}, {'op': 'wp', 'obj': sid, 'prop': xpid, 'value': newval},
                     {'op': 'wp', 'obj': oid, 'prop': xpid, 'value': newval}, {'op': 'rp', 'obj': oid, 'prop': xpid}, {'op': 'rp', 'obj': sid, 'prop': xpid},
                     {'op': 'rpm', 'specs': [{'obj': sid, 'refs': [{'prop': 'all'}]}]}, {'op': 'rpm', 'specs': [{'obj': oid, 'refs': [{'prop': 'all'}]}]},
                     {'op': 'rpm', 'specs': [{'obj': sid, 'refs': [{'prop': xpid}, {'prop': 'objectName'}]}]}]
        extra_ops = [dict(x, c=0, gap=0.0) for x in extra_ops if rng.random() < 0.8]
    for o_ in objects:
        if not o_.get('cmd') and rng.random() < 0.3:
            arrs = [pid_ for (k_, pid_, dt_, kd_, wr_, hv_) in catalog if objects[k_] is o_ and (kd_.startswith('array:') or kd_.startswith('list:'))]
            if arrs:
                o_['monitored'] = sorted(set(rng.sample(arrs, rng.randint(1, len(arrs)))))
    cov_neighbour = rng.choice([None, None, 'before', 'after'])
    dev_props = ['vendorIdentifier', 'maxApduLengthAccepted', 'numberOfApduRetries', 'apduTimeout', 'apduSegmentTimeout', 'maxSegmentsAccepted', 'segmentationSupported']
    nops = rng.randint(5, 60)
    ops = []
    all_props = sorted(PropertyIdentifier.enumerations)
    for _ in range(nops):
        k, pid, dt, kd, wr, hv = rng.choice(catalog)
        o = objects[k]
        objid = [o['type'], o['inst']]
        u = rng.random()
        op = None
        if u < 0.35:
            op = {'op': 'rp', 'obj': objid, 'prop': pid}
            if kd.startswith('array:') or rng.random() < 0.1:
                op['idx'] = rng.choice([None, 0, 1, 2, 3, 4, 5, 9])
        elif u < 0.70:
            op = {'op': 'wp', 'obj': objid, 'prop': pid, 'value': gen_value(rng, dt)}
            if kd.startswith('array:') and rng.random() < 0.5:
                i_ = rng.choice([1, 2, 3, 5, 0])
                op['idx'] = i_
                op['value'] = gen_value(rng, dt.subtype) if i_ else ['uns', rng.randint(0, 3)]
            elif rng.random() < 0.06:
                op['idx'] = rng.choice([1, 2])
                if kd.startswith('list:'):
                    op.pop('idx')
            if rng.random() < 0.15:
                # wrong-typed value: an atomic of another kind
                other = rng.choice([x for x in ('real', 'str', 'uns', 'bool', 'octets', 'date', 'enum', 'int') if x != kd.split(':')[-1] and not (x == 'enum' and kd == 'uns') and not (x == 'uns' and kd in ('enum', 'int', 'real', 'double')) and not (x == 'int' and kd in ('real', 'double', 'uns', 'enum')) and not (x == 'real' and kd == 'double')])
                if op.get('idx') == 0 and other in ('uns', 'enum', 'int'):
                    other = 'str'        # index 0 is the array length: an unsigned is the RIGHT type there
                op['value'] = gen_value(rng, ATOM_CLASS[other], other) if other != 'enum' else ['enum', rng.randint(0, 3)]
                op['wrong'] = True
            if rng.random() < 0.3:
                op['prio'] = rng.randint(1, 16)
        elif u < 0.78:
            # unknown object / unknown property
            if rng.random() < 0.5:
                op = {'op': rng.choice(['rp', 'wp']), 'obj': [o['type'], 900 + rng.randint(0, 9)], 'prop': pid, 'value': rng.choice([['real', 1.0], ['uns', 3], ['str', 'x']]), 'wrong': True}
            else:
                base = getattr(bobj, o['cls'])
                unknown = [p_ for p_ in all_props if p_ not in base._properties and p_ not in ('all', 'required', 'optional')]
                op = {'op': rng.choice(['rp', 'wp']), 'obj': objid, 'prop': rng.choice(unknown), 'value': ['uns', 1]}
                op['wrong'] = False
        else:
            specs = []
            for _s in range(rng.randint(1, 3)):
                k2, pid2, dt2, kd2, wr2, hv2 = rng.choice(catalog)
                o2 = objects[k2]
                refs = []
                for _r in range(rng.randint(1, 4)):
                    v = rng.random()
                    if v < 0.25:
                        refs.append({'prop': rng.choice(['all', 'required', 'optional'])})
                    else:
                        cand = [c for c in catalog if c[0] == k2]
                        c_ = rng.choice(cand)
                        ref = {'prop': c_[1]}
                        if c_[3].startswith('array:') or rng.random() < 0.08:
                            ref['idx'] = rng.choice([None, 0, 1, 2, 7])
                        refs.append(ref)
                # at most one selector per spec (keeps the expected element set unambiguous)
                sel = [r_ for r_ in refs if r_['prop'] in ('all', 'required', 'optional')]
                for extra in sel[1:]:
                    refs.remove(extra)
                obj_ref = [o2['type'], o2['inst']] if rng.random() < 0.9 else [o2['type'], 950]
                specs.append({'obj': obj_ref, 'refs': refs})
            op = {'op': 'rpm', 'specs': specs}
        op['c'] = 0 if op['op'] == 'wp' else rng.choice([0, 0, 1])
        op['gap'] = rng.choice([0.0, 0.0, 0.01, 1.0])
        ops.append(op)
        # read back what was (or was not) written: whole value, length, first / last / one-past element
        if op['op'] == 'wp' and 'prop' in op and rng.random() < 0.6:
            for i_ in ([None, 0, 1, 2, 9] if kd.startswith('array:') else [None]):
                if rng.random() < 0.7:
                    r_ = {'op': 'rp', 'obj': op['obj'], 'prop': op['prop'], 'c': 0, 'gap': 0.0}
                    if i_ is not None:
                        r_['idx'] = i_
                    ops.append(r_)
            if rng.random() < 0.3:
                ops.append({'op': 'rpm', 'specs': [{'obj': op['obj'], 'refs': [{'prop': op['prop']}, {'prop': op['prop'], 'idx': 0}]}], 'c': 0, 'gap': 0.0})
        # the device object, by its identifier and by the wildcard instance
        if rng.random() < 0.12:
            did = ['device', rng.choice([4194303, 1020])]
            pr = rng.choice(dev_props + ['activeCovSubscriptions'])
            if rng.random() < 0.5:
                ops.append({'op': 'rp', 'obj': did, 'prop': pr, 'c': 0, 'gap': 0.0})
            else:
                ops.append({'op': 'rpm', 'specs': [{'obj': did, 'refs': [{'prop': pr}, {'prop': rng.choice(dev_props)}] + ([{'prop': rng.choice(['all', 'required', 'optional'])}] if rng.random() < 0.3 else [])}], 'c': 0, 'gap': 0.0})
        if has_cmd and rng.random() < 0.1:
            ops.append({'op': 'wp', 'obj': ['analogValue', 77], 'prop': 'presentValue', 'value': rng.choice([['real', 5.0], ['null']]), 'idx': rng.choice([1, 3, 8, 16]),
                        'prio': rng.choice([None, 8]), 'c': 0, 'gap': 0.0})
            ops.append({'op': 'rp', 'obj': ['analogValue', 77], 'prop': 'presentValue', 'c': 0, 'gap': 0.0})
        if has_cmd and rng.random() < 0.25:
            # commands at priorities 1..16 (values repeat on purpose: equal to each other, to the default, to the value in effect)
            ops.append({'op': 'wp', 'obj': ['analogValue', 77], 'prop': 'presentValue', 'value': rng.choice([['real', 0.0], ['real', 5.0], ['real', 5.0], ['real', 7.5], ['null'], ['null']]),
                        'idx': None, 'prio': rng.choice([None, 1, 8, 8, 16, rng.randint(1, 16)]), 'c': 0, 'gap': 0.0})
            u = rng.random()
            if u < 0.5:
                ops.append({'op': 'rp', 'obj': ['analogValue', 77], 'prop': 'presentValue', 'c': 0, 'gap': 0.0})
            if u > 0.3:
                ops.append({'op': 'rp', 'obj': ['analogValue', 77], 'prop': 'priorityArray', 'idx': rng.choice([None, None, 0, 1, 8, 16, 17, rng.randint(1, 16)]), 'c': 0, 'gap': 0.0})
            if rng.random() < 0.15:
                ops.append({'op': 'rpm', 'specs': [{'obj': ['analogValue', 77], 'refs': [{'prop': 'presentValue'}, {'prop': 'priorityArray'}, {'prop': 'priorityArray', 'idx': rng.choice([0, 8, 16, 17])}]}], 'c': 0, 'gap': 0.0})
    pos = sorted(rng.randrange(len(ops) + 1) for _ in extra_ops)
    for off, (i_, x) in enumerate(zip(pos, extra_ops)):
        ops.insert(i_ + off, x)
    tout, tseg = 2.0, 0.5
    faults = fault_profile(rng, tout, tseg, allow_none=0.4)
    return {'prop': 'C15', 'seed': H(seed, 'C15run', idx) & 0x7fffffff, 'objects': objects, 'ops': ops, 'nclients': rng.choice([1, 2]),
            'dev_apdu': rng.choice([1024, 1024, 128, 50, 480]), 'cli_apdu': rng.choice([1024, 480, 128]),
            'faults': faults, 'latency': rng.choice([0.0, 0.001]), 'jitter': rng.choice([0.0, 0.0, 0.003]), 'cov_neighbour': cov_neighbour}


def consistency_descs():
    """model-free sweep: one instance of every registered object type that can be built with defaults;
    ReadPropertyMultiple(all/required/optional) and a ReadProperty of every listed property, which must agree."""
    names = sorted(set(c.__name__ for c in registered_object_types.values() if c.__module__ == 'bacpypes.object'))
    out = []
    for n in names:
        out.append(n)
    return out


def run_unit(unit):
    agg = Agg()
    if unit['kind'] == 'explore':
        for idx in range(unit['start'], unit['start'] + unit['count']):
            d = gen_desc(unit['seed'], idx)
            r = execute_desc(d)
            agg.evals += 1
            agg.sim_seconds += r['sim']
            for k, v in r['faults'].items():
                agg.stat('fault.' + k, v)
            for k, v in r['probes'].items():
                agg.stat('probe.' + k, v)
            for e in r['errors']:
                agg.stat('looperr.%s:%s:%s' % (e[1], e[2], e[3]))
            for op in d['ops']:
                agg.stat('probe.op_' + op['op'] + ('_wrongtype' if op.get('wrong') else ''))
            agg.sigs.add(H(tuple((o['cls'], tuple(o['writable'])) for o in d['objects']), tuple(repr(op) for op in d['ops']), repr(d['faults'])))
            if len(agg.samples) < 2 and len(d['ops']) < 12:
                agg.samples.append({'desc': d, 'events_tail': r['events_tail'][-12:]})
            for v in r['violations']:
                agg.violation(v, d)
    elif unit['kind'] == 'types':
        for d in type_sweep_descs(unit['seed'], unit['mod'], unit['rem']):
            r = execute_desc(d)
            agg.evals += 1
            agg.sim_seconds += r['sim']
            agg.stat('probe.type_sweep')
            agg.sigs.add(H(d['objects'][0]['cls'], repr(d['ops'])))
            for v in r['violations']:
                agg.violation(v, d)
        agg.cells += 1
    return agg.result()


def type_sweep_descs(seed, mod, rem):
    """every registered standard object type: values for all its modellable properties, then RPM selectors + RP of each property"""
    names = sorted(set(c.__name__ for c in registered_object_types.values() if c.__module__ == 'bacpypes.object'))
    for j, n in enumerate(names):
        if j % mod != rem:
            continue
        rng = rng_for(seed, 'C15t', n)
        base = getattr(bobj, n)
        init = {}
        props = []
        for pid, p in sorted(base._properties.items()):
            if pid in COMPUTED:
                continue
            kd = kind_of(p.datatype)
            if kd and kd != 'null':
                init[pid] = gen_value(rng, p.datatype)
                props.append((pid, kd))
        try:
            base(objectIdentifier=(base.objectType, 1), objectName='probe')
        except Exception:
            continue
        o = {'cls': n, 'inst': 1, 'name': 'o0', 'writable': [p_[0] for p_ in props[::3]], 'init': init, 'type': base.objectType}
        objid = [base.objectType, 1]
        ops = [{'op': 'rpm', 'specs': [{'obj': objid, 'refs': [{'prop': sel}]}], 'c': 0} for sel in ('all', 'required', 'optional')]
        for pid, kd in props:
            ops.append({'op': 'rp', 'obj': objid, 'prop': pid, 'c': 0})
            if kd.startswith('array:'):
                for i_ in (0, 1, 99):
                    ops.append({'op': 'rp', 'obj': objid, 'prop': pid, 'idx': i_, 'c': 0})
        for pid, kd in props[:12]:
            dt = base._properties[pid].datatype
            ops.append({'op': 'wp', 'obj': objid, 'prop': pid, 'value': gen_value(rng, dt), 'c': 0})
            ops.append({'op': 'rp', 'obj': objid, 'prop': pid, 'c': 0})
        yield {'prop': 'C15', 'seed': H(seed, 'C15trun', n) & 0x7fffffff, 'objects': [o], 'ops': ops, 'nclients': 1, 'dev_apdu': 1024, 'cli_apdu': 1024,
               'faults': {'mode': 'none'}}


def units(tier, seed):
    us = [{'kind': 'types', 'must': True, 'seed': seed, 'mod': 16, 'rem': r} for r in range(16)]
    n = 6000 if tier == 'thorough' else 900
    for k in range(n):
        us.append({'kind': 'explore', 'seed': seed, 'start': k * 15, 'count': 15})
    return us


def selftest_descs(tier, seed):
    return [gen_desc(seed, 10000003 + i) for i in range(3)]


def evidence(tier, seed, total):
    return {
        'level': LEVEL,
        'coverage': {
            'rule': '[additions: a commandable analog value whose present value / priority array are modelled (16 slots) and commanded at priorities 1-16 with repeating values; a proprietary property added to ONE instance (Object.add_property) next to a sibling of the same class; property existence taken from the static class declarations, not from the run-time tables of the library; a neighbour device offering SubscribeCOV in the same process; watched (monitored) array / list properties; the device object by identifier and by the wildcard instance] Type sweep (enumerated): one instance of EVERY registered standard object type that can be constructed, all its properties of modellable datatypes '
                    '(atomic, enumerated, bit string, date/time, object identifier, arrays and lists of those) initialised with seeded values, then ReadPropertyMultiple '
                    'all/required/optional, ReadProperty of every property (array index 0, 1, 99 for arrays) and write/read-back of up to 12 properties. Exploration: a '
                    'device with 2-6 objects from 14 classes (seeded subsets of properties made writable through the documented property-table override and initialised), '
                    '5-60 operations by 1-2 real client stacks: reads, writes with values generated from the declared datatype, 15% wrong-typed writes, array element / '
                    'length writes, all array index classes, priorities, unknown objects and properties, ReadPropertyMultiple with selectors and embedded errors; '
                    'hashed drop/dup/delay plans (60% of runs) so that retries and late duplicates re-deliver requests, small APDU sizes so that answers are segmented. '
                    'The reference store is applied at each indication of the serving application (incl. re-indications) and compared with the response emitted for it; '
                    'at the end every modelled value is read back directly. Distinct = distinct (object set, op list, fault plan) tuples; every run is non-trivial (>= 5 operations served).',
            'enumerated_cells': total['cells'],
            'components_real': ['service.object.ReadWritePropertyServices / ReadWritePropertyMultipleServices', 'object.py property tables, Property.ReadProperty/WriteProperty',
                                'constructeddata Array/List/Any', 'app.Application + ASAP + SMAP (segmentation) on both sides', 'netservice', 'vlan', 'task.TaskManager', 'core.run_once'],
            'components_stub': ['wall clock', 'LAN fault layer'],
        },
        'assumptions': ['the reference store and its error-cause model in bacsim/props/c15.py are correct; value octets are canonicalised with the library\'s own encoder on the harness side',
                        'when several refusal causes apply to one request a code for any of them is accepted; wrong-datatype refusals may be invalid-data-type, value-out-of-range or a reject (invalid-parameter-datatype / invalid-tag / parameter-out-of-range / inconsistent-parameters)',
                        'computed properties (objectList, propertyList, localDate/Time, protocolServicesSupported, identifiers) and properties the harness did not initialise are not value-modelled',
                        'single writer per property at a time'],
    }
