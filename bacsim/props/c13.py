"""
C13 -- B/IP broadcasts reach every node once; foreign registrations expire on
time.  Seeded random layouts of IP subnets joined by the repo's IPRouter, real
BIPSimple / BIPBBMD / BIPForeign stacks on the in-memory datagram director,
broadcasts from every kind of node across registration, renewal, expiry,
unregistration and table-entry deletion; population model + registration
timeline model, BVLL decoded by the harness' own decoder.
"""

import copy

from .. import env, wire
from ..env import clock, tm, errlog
from ..world import World, H, U
from ..driver import Agg
from ..txngen import rng_for
from ..ipstack import IPFabric, BIPLink, Host

import bacpypes.core as core
from bacpypes.comm import Client, bind
from bacpypes.pdu import Address, PDU, LocalBroadcast

ID = 'C13'
LEVEL = 'exploration'
BUDGET = {'quick': 55, 'thorough': 780}
SHRINK_LISTS = [('events',)]

GRACE = 30.0        # the standard's grace period (the implementation's shorter one is inside the band)
EPS = 1.5           # margin around timeline edges (network delay + the BBMD's one-second ageing grid)
PORT = 47808


class Top(Client):
    """What the network layer of a node is handed."""

    def __init__(self, world, label):
        Client.__init__(self)
        self.world = world
        self.label = label
        self.rx = []

    def confirmation(self, pdu):
        w = self.world
        data = bytes(pdu.pduData)
        seq = w.log('up', self.label, str(pdu.pduSource), str(pdu.pduDestination), data.hex())
        self.rx.append((seq, w.now, str(pdu.pduSource), str(pdu.pduDestination), data))

    def broadcast(self, payload):
        self.world.log('bcast', self.label, payload.hex())
        self.request(PDU(payload, destination=LocalBroadcast()))


class NodeX:
    def __init__(self, w, fab, label, kind, addr, lan_name):
        self.label = label
        self.kind = kind
        self.addr = addr
        self.host = fab.host(label, addr, lan_name)
        self.link = BIPLink(self.host, kind)
        self.bip = self.link.bip
        self.top = Top(w, label)
        bind(self.top, self.bip)
        self.ip = Address(addr).addrTuple


def ipstr(t):
    return '%s:%d' % t


def build(desc):
    w = World(desc['seed'], faults=desc.get('faults'), frame_cap=desc.get('frame_cap', 60000), tick_cap=900000,
              latency=desc.get('latency', 0.0), jitter=desc.get('jitter', 0.0))
    fab = IPFabric(w)
    lay = desc['layout']
    nodes = {}
    for sn in lay['subnets']:
        fab.subnet(sn['name'], sn['router'])
    for n in lay['nodes']:
        nodes[n['label']] = NodeX(w, fab, n['label'], n['kind'], n['addr'], n['subnet'])
    for n in lay['nodes']:
        if n['kind'] == 'bbmd':
            for peer in n.get('bdt', []):
                nodes[n['label']].bip.add_peer(Address(peer))
    raw = fab.host('raw', lay['raw']['addr'], lay['raw']['subnet'])
    raw_rx = []

    def rawrx(src, dst, octets):
        seq = w.log('rawrx', ipstr(tuple(src)), octets.hex())
        raw_rx.append((seq, w.now, tuple(src), octets))
    raw.raw_rx = rawrx
    return w, fab, nodes, raw, raw_rx


def execute(desc):
    w, fab, nodes, raw, raw_rx = build(desc)
    w.log('seed', desc['seed'])
    lay = desc['layout']
    ev_log = []

    def do(ev):
        k = ev['ev']
        ev_log.append((w.seq, w.now, ev))
        if k == 'bcast':
            nodes[ev['node']].top.broadcast(bytes.fromhex(ev['payload']))
        elif k == 'register':
            n = nodes[ev['node']]
            w.log('register', ev['node'], ev['bbmd'], ev['ttl'])
            n.bip.register(Address(nodes[ev['bbmd']].addr.split('/')[0]), ev['ttl'])
        elif k == 'unregister':
            w.log('unregister', ev['node'])
            n = nodes[ev['node']]
            if n.bip.bbmdAddress is not None:
                n.bip.unregister()
        elif k == 'delete_fdt':
            b = nodes[ev['bbmd']]
            f = nodes[ev['fd']]
            w.log('delete_fdt', ev['bbmd'], ev['fd'])
            raw.send(wire.encode_bvll(wire.BV_DELETE_FDT, wire.pack_ip6(f.ip)), b.ip)
        elif k == 'read_fdt':
            b = nodes[ev['bbmd']]
            w.log('read_fdt', ev['bbmd'])
            raw.send(wire.encode_bvll(wire.BV_READ_FDT), b.ip)
        elif k == 'crash':
            w.log('crash', ev['node'])
            w.probe('crash')
            nodes[ev['node']].host.node.muted = True
        elif k == 'heal':
            w.log('heal', ev['node'])
            nodes[ev['node']].host.node.muted = False
        elif k == 'stall':
            w.probe('stall')
            w.stall(ev['d'])
        else:
            raise ValueError(k)

    for ev in desc['events']:
        w.at(ev['t'], do, ev)
    res = w.run(until=desc['horizon'])
    errors = list(errlog.records)
    tm.tasks = []
    core.deferredFns = []
    return {'w': w, 'nodes': nodes, 'raw_rx': raw_rx, 'ev_log': ev_log, 'result': res, 'errors': errors}


# ------------------------------------------------------------------ models

def subnet_of(lay, label):
    return next(n['subnet'] for n in lay['nodes'] if n['label'] == label)


def bbmd_of_subnet(lay, sn):
    for n in lay['nodes']:
        if n['kind'] == 'bbmd' and n['subnet'] == sn:
            return n
    return None


def bdt_has(bb, other):
    """(listed, style) -- does BBMD node `bb` list BBMD node `other`"""
    host = other['addr'].split('/')[0]
    for peer in bb.get('bdt', []):
        if peer.split('/')[0] == host or (other is bb and peer.split('/')[0] == host):
            return True, ('two-hop' if peer.split(':')[0].endswith('/32') else 'one-hop')
    return False, None


def static_reach(lay, src_label):
    """Non-foreign nodes that a broadcast originated by src (not a foreign
    device) reaches, per the distribution tables."""
    nodes = lay['nodes']
    src = next(n for n in nodes if n['label'] == src_label)
    out = set()
    if src['kind'] != 'foreign':
        for n in nodes:
            if n['subnet'] == src['subnet'] and n['label'] != src_label and n['kind'] != 'foreign':
                out.add(n['label'])
    return out


def reach_via_bbmd(lay, bb, origin_label, include_local):
    """nodes reached when BBMD bb distributes (to BDT peers; locally when include_local)"""
    nodes = lay['nodes']
    out = set()
    bbmds_reached = [bb]
    for other in nodes:
        if other['kind'] != 'bbmd' or other is bb:
            continue
        listed, style = bdt_has(bb, other)
        if not listed:
            continue
        bbmds_reached.append(other)
        if style == 'one-hop':
            for n in nodes:
                if n['subnet'] == other['subnet'] and n['kind'] != 'foreign':
                    out.add(n['label'])
        else:
            out.add(other['label'])
            self_listed, _ = bdt_has(other, other)
            if self_listed:
                for n in nodes:
                    if n['subnet'] == other['subnet'] and n['kind'] != 'foreign':
                        out.add(n['label'])
    if include_local:
        self_listed, _ = bdt_has(bb, bb)
        out.add(bb['label'])
        if self_listed:
            for n in nodes:
                if n['subnet'] == bb['subnet'] and n['kind'] != 'foreign':
                    out.add(n['label'])
    out.discard(origin_label)
    return out, bbmds_reached


class Timeline:
    """Registration timeline of one foreign device, from what was delivered on the wire."""

    def __init__(self):
        self.regs = []      # (t_processed_by_bbmd, ttl, bbmd)
        self.acks = []      # t Result(0) delivered to the FD
        self.deletes = []   # t Delete-FDT processed
        self.unregs = []    # t unregister called on the FD
        self.unreg_processed = []
        self.calls = []     # (t, 'register'|'unregister', bbmd) API calls on the foreign device
        self.reg_seq = []   # log sequence numbers parallel to regs / deletes: order inside one instant
        self.delete_seq = []


def build_timelines(desc, ex):
    w = ex['w']
    lay = desc['layout']
    ip_to_label = {}
    for n in lay['nodes']:
        ip_to_label[n['addr'].split('/')[0]] = n['label']
    tl = {n['label']: Timeline() for n in lay['nodes'] if n['kind'] == 'foreign'}
    for f in w.rx:
        v = wire.decode_bvll(f['octets'])
        if v is None:
            continue
        node = f['node']
        src_ip = f['src'].split(':')[0]
        if v['fn'] == wire.BV_REGISTER_FD and node in [n['label'] for n in lay['nodes'] if n['kind'] == 'bbmd']:
            fd = ip_to_label.get(src_ip)
            if fd in tl:
                if v['ttl'] == 0:
                    tl[fd].unreg_processed.append((f['t'], node))
                tl[fd].regs.append((f['t'], v['ttl'], node))
                tl[fd].reg_seq.append(f['seq'])
        elif v['fn'] == wire.BV_RESULT and node in tl and v.get('code') == 0:
            tl[node].acks.append(f['t'])
        elif v['fn'] == wire.BV_DELETE_FDT and 'entry' in v:
            fd = ip_to_label.get(v['entry'][0])
            if fd in tl:
                tl[fd].deletes.append((f['t'], node))
                tl[fd].delete_seq.append(f['seq'])
    for (seq, t, ev) in ex['ev_log']:
        if ev['ev'] == 'unregister' and ev['node'] in tl:
            tl[ev['node']].unregs.append(t)
        if ev['ev'] in ('register', 'unregister') and ev['node'] in tl:
            tl[ev['node']].calls.append((t, ev['ev'], ev.get('bbmd')))
    return tl


def fd_state_at(tl, t, bbmd_label=None):
    """'served' | 'unserved' | 'either' for forwarding TO the foreign device of a broadcast originated at t."""
    # last registration processed before t - EPS .. consider edges
    regs = [r for r in tl.regs]
    if not regs or not tl.acks:
        return ('unserved' if not regs or regs[0][0] > t + EPS else 'either'), (regs[0][2] if regs else None)
    # find the registration in force
    last = None
    for r in regs:
        if r[0] <= t:
            last = r
    if last is None:
        return ('unserved' if regs[0][0] > t + EPS else 'either'), regs[0][2]
    t_reg, ttl, bb = last
    # any event close to t makes it ambiguous
    for r in regs:
        if abs(r[0] - t) <= EPS:
            return 'either', bb
    for (td, b) in tl.deletes:
        if abs(td - t) <= EPS:
            return 'either', bb
    for tu in tl.unregs:
        if abs(tu - t) <= EPS:
            return 'either', bb
    for ta in tl.acks:
        if abs(ta - t) <= EPS:
            return 'either', bb
    # deleted after the last registration?
    for (td, b) in tl.deletes:
        if t_reg <= td <= t:
            return 'unserved', bb
    # (an unregister() shows up as a registration with TTL 0 and is handled below)
    if ttl == 0:
        return ('either' if t <= t_reg + GRACE else 'unserved'), bb
    first_ack = min([a for a in tl.acks], default=None)
    if first_ack is None or first_ack > t:
        return 'either', bb
    if t <= t_reg + ttl - EPS:
        return 'served', bb
    if t <= t_reg + ttl + GRACE + EPS:
        return 'either', bb
    return 'unserved', bb


# ------------------------------------------------------------------ oracle

def check(desc, ex):
    out = []
    w = ex['w']
    lay = desc['layout']
    seen = set()

    def viol(clause, what, detail, **sig):
        if (clause, what) in seen:
            return
        seen.add((clause, what))
        s = {'kind': what}
        s.update(sig)
        out.append({'clause': clause, 'detail': detail, 'sigkey': what, 'sig': s})

    if ex['result'] == 'budget':
        viol('C13.a', 'budget', 'frame/tick budget exceeded (%s) after %d frames: broadcast storm?' % (w.budget_hit, w.frames))
        return out
    nodes = {n['label']: n for n in lay['nodes']}
    tl = build_timelines(desc, ex)
    faulty = bool(w.plan.fired) or any(ev['ev'] in ('crash', 'stall') for ev in desc['events'])
    got = {}    # payload -> {label: [(seq, t, src)]}
    for label, nx in ex['nodes'].items():
        for (seq, t, src, dst, data) in nx.top.rx:
            got.setdefault(data, {}).setdefault(label, []).append((seq, t, src))
    crashed = {}
    for (seq, t, ev) in ex['ev_log']:
        if ev['ev'] == 'crash':
            crashed[ev['node']] = t
    for (seq, t, ev) in ex['ev_log']:
        if ev['ev'] != 'bcast':
            continue
        src = nodes[ev['node']]
        payload = bytes.fromhex(ev['payload'])
        g = got.get(payload, {})
        must = set()
        may = set()
        if ev['node'] in crashed and crashed[ev['node']] <= t:
            continue
        # --- who distributes
        fd_origin_ok = None
        if src['kind'] == 'foreign':
            T = tl[ev['node']]
            # own broadcasts: the device sends them only while it believes it is registered, i.e. after the
            # Result(0) for its latest register() call; the BBMD distributes whatever it is sent (whether it
            # still does so for a lapsed / deleted entry is not stated by the property)
            calls = [c for c in T.calls if c[0] <= t]
            bb_label = None
            fd_origin_ok = 'no'
            exp_static = set()
            if calls:
                tc, what, bbl = calls[-1]
                near_call = any(abs(c[0] - t) <= EPS for c in T.calls)
                if what == 'register':
                    bb_label = bbl
                    exp_static, _ = reach_via_bbmd(lay, nodes[bb_label], ev['node'], include_local=True)
                    acked = [a for a in T.acks if tc < a <= t]
                    if acked and min(acked) <= t - EPS and not near_call:
                        fd_origin_ok = 'yes'
                    else:
                        fd_origin_ok = 'maybe'
                elif near_call:
                    bb_label = next((c[2] for c in reversed(calls) if c[2]), None)
                    if bb_label is not None:
                        exp_static, _ = reach_via_bbmd(lay, nodes[bb_label], ev['node'], include_local=True)
                        fd_origin_ok = 'maybe'
            bbs_reached = []
            if bb_label is not None:
                _, bbs_reached = reach_via_bbmd(lay, nodes[bb_label], ev['node'], include_local=True)
            if fd_origin_ok == 'yes':
                must |= exp_static
            elif fd_origin_ok == 'maybe':
                may |= exp_static
        else:
            must |= static_reach(lay, ev['node'])
            bb = bbmd_of_subnet(lay, src['subnet'])
            bbs_reached = []
            if bb is not None:
                r, bbs_reached = reach_via_bbmd(lay, bb, ev['node'], include_local=False)
                must |= r
        # --- foreign devices served by the BBMDs that handle the broadcast
        for fd_label, T in tl.items():
            if fd_label == ev['node']:
                continue
            st, bb_label = fd_state_at(T, t)
            if bb_label is None or bb_label not in [b['label'] for b in bbs_reached]:
                continue
            if fd_label in crashed and crashed[fd_label] <= t + EPS:
                may.add(fd_label) if crashed[fd_label] > t - EPS else None
                continue
            origin_sure = src['kind'] != 'foreign' or fd_origin_ok == 'yes'
            if st == 'served' and origin_sure:
                must.add(fd_label)
            elif st in ('served', 'either') and (origin_sure or fd_origin_ok == 'maybe'):
                may.add(fd_label)
        if faulty:
            # under loss / crashes delivery is not required, only never-twice / never-wrong
            may |= must
            must = set()
        missing = must - set(g)
        extra = set(g) - must - may
        dups = {l: len(v) for l, v in g.items() if len(v) > 1}
        if ev['node'] in g:
            viol('C13.a', 'echo-to-originator', 'broadcast %s from %s (%s) was handed back to its originator' % (ev['payload'], ev['node'], src['kind']), origin=src['kind'])
        elif dups:
            viol('C13.a', 'duplicate', 'broadcast %s from %s (%s) at t=%.2f was handed %r times to the network layer of the listed nodes (expected once)'
                 % (ev['payload'], ev['node'], src['kind'], t, dups), origin=src['kind'])
        elif missing:
            kinds = sorted(set(nodes[m]['kind'] for m in missing))
            clause = 'C13.b' if kinds == ['foreign'] else 'C13.a'
            viol(clause, 'missing:' + ','.join(kinds), 'broadcast %s from %s (%s) at t=%.2f did not reach %r (reached %r)'
                 % (ev['payload'], ev['node'], src['kind'], t, sorted(missing), sorted(g)), origin=src['kind'], kinds=kinds)
        elif extra:
            kinds = sorted(set(nodes[m]['kind'] for m in extra))
            if kinds == ['foreign']:
                st_info = {m: fd_state_at(tl[m], t)[0] for m in extra}
                clause = 'C13.c'
                for m in extra:
                    if any(td <= t for (td, b) in tl[m].deletes):
                        clause = 'C13.e'
                    if any(tu <= t for tu in tl[m].unregs):
                        clause = 'C13.f'
            else:
                clause = 'C13.a'
                st_info = {}
            viol(clause, 'extra:' + ','.join(kinds), 'broadcast %s from %s (%s) at t=%.2f reached %r which should not be served (%r)'
                 % (ev['payload'], ev['node'], src['kind'], t, sorted(extra), st_info), origin=src['kind'], kinds=kinds)
        else:
            # true originator as source
            want = ipstr(Address(src['addr']).addrTuple)
            for label, lst in g.items():
                shown = lst[0][2] if ':' in lst[0][2] else lst[0][2] + ':%d' % PORT
                if shown != want:
                    viol('C13.a', 'source-address', 'broadcast from %s was shown to %s with source %s (true originator %s)' % (ev['node'], label, lst[0][2], want), origin=src['kind'])
    # --- Read-FDT listings vs timeline (C13.c / C13.e)
    reads = [(seq, t, ev) for (seq, t, ev) in ex['ev_log'] if ev['ev'] == 'read_fdt']
    acks = []
    for (seq, t, src, octets) in ex['raw_rx']:
        v = wire.decode_bvll(octets)
        if v is not None and v['fn'] == wire.BV_READ_FDT_ACK:
            acks.append((seq, t, src, v['fdt']))
    ip_to_label = {n['addr'].split('/')[0]: n['label'] for n in lay['nodes']}
    for (seq, t, src, fdt) in acks:
        bb_label = ip_to_label.get(src[0])
        listed = set(ip_to_label.get(e[0][0]) for e in fdt)
        for fd_label, T in tl.items():
            st, bbl = fd_state_at(T, t)
            if bbl != bb_label:
                continue
            if st == 'unserved' and fd_label in listed and not any(abs(tu - t) < GRACE + EPS for tu in T.unregs):
                viol('C13.c', 'fdt-lists-expired', 'Read-FDT of %s at t=%.2f still lists %s whose registration ended (timeline %r)' % (bb_label, t, fd_label, T.regs[-3:]))
            if st == 'served' and fd_label not in listed and not faulty:
                viol('C13.b', 'fdt-misses-live', 'Read-FDT of %s at t=%.2f does not list %s although its registration is in force (timeline %r)' % (bb_label, t, fd_label, T.regs[-3:]))
    # --- C13.c (tight, sound for ANY grace value): a Read-FDT-Ack declares, per entry, the seconds remaining before the BBMD
    # purges it; once that time has passed without a new registration the entry must be neither listed nor served
    EPS_P = 0.3
    for bb_label in sorted(n['label'] for n in lay['nodes'] if n['kind'] == 'bbmd'):
        if bb_label is None:
            continue
        promise = {}        # fd label -> (deadline, t declared, remaining declared, log seq of the declaration)
        # declarations count from the instant the BBMD EMITS the Read-FDT-Ack (a registration may arrive while it travels);
        # "a registration since" is decided by log order, not by time
        my_acks = []
        fwd = []
        for f in w.tx:
            if f['node'] == bb_label:
                v = wire.decode_bvll(f['octets'])
                if v is not None and v['fn'] == wire.BV_FORWARDED:
                    fwd.append((f['t'], f['dst']))
                elif v is not None and v['fn'] == wire.BV_READ_FDT_ACK:
                    my_acks.append((f['seq'], f['t'], v['fdt']))
        regs_at = {fd: sorted((T.reg_seq[ri], r[0]) for ri, r in enumerate(T.regs) if r[2] == bb_label) for fd, T in tl.items()}
        for (sq, t, fdt) in sorted(my_acks):
            listed_now = {}
            for (ip, ttl, rem) in fdt:
                fd = ip_to_label.get(ip[0])
                if fd in tl:
                    listed_now[fd] = rem
            for fd, (deadline, t_decl, rem_decl, sq_decl) in list(promise.items()):
                renewed = any(sq_decl < rs < sq for (rs, rt) in regs_at.get(fd, []))
                if renewed:
                    del promise[fd]
                    continue
                if fd in listed_now and t > deadline:
                    viol('C13.c', 'listed-beyond-declared-remaining', 'Read-FDT of %s at t=%.2f still lists %s although at t=%.2f it declared only %d s remaining for it and no registration arrived since'
                         % (bb_label, t, fd, t_decl, rem_decl))
            for fd, rem in listed_now.items():
                if fd not in promise:
                    promise[fd] = (t + rem + EPS_P, t, rem, sq)
        for fd, (deadline, t_decl, rem_decl, sq_decl) in promise.items():
            nxt = min([rt for (rs, rt) in regs_at.get(fd, []) if rs > sq_decl] or [1e18])
            fd_ip = ipstr(Address(nodes[fd]['addr']).addrTuple)
            late = [tf for (tf, dst) in fwd if dst == fd_ip and deadline < tf < nxt]
            if late:
                viol('C13.c', 'served-beyond-declared-remaining', 'BBMD %s forwarded to %s at t=%.2f although at t=%.2f it declared only %d s remaining for it and no registration arrived since'
                     % (bb_label, fd, late[0], t_decl, rem_decl))
    # --- C13.d fault-free: a registered FD renews in time (registrations at the BBMD never more than TTL+EPS apart)
    if not faulty:
        for fd_label, T in tl.items():
            regs = [r for r in T.regs]
            for i in range(len(regs) - 1):
                t0, ttl, bb = regs[i]
                t1 = regs[i + 1][0]
                stop = [tu for tu in T.unregs if t0 - EPS <= tu <= t1 + EPS]
                # register() called again around t0 (another time-to-live): the old and the new registration may reach the
                # BBMD in either order, the one processed last need not be the one the device renews by
                raced = [c for c in T.calls if c[1] == 'register' and abs(c[0] - t0) <= 3.0]
                if raced and len([c for c in T.calls if c[1] == 'register']) > 1:
                    w.probe('c13-reregistration-race')
                    continue
                if ttl > 0 and not stop and t1 - t0 > ttl + EPS:
                    viol('C13.d', 'late-renewal', 'foreign device %s renewed its %ds registration after %.2fs' % (fd_label, ttl, t1 - t0))
            if regs:
                t0, ttl, bb = regs[-1]
                last_unreg = max(T.unregs) if T.unregs else None
                if ttl > 0 and (last_unreg is None or last_unreg < t0 - EPS) and desc['horizon'] - t0 > ttl + EPS:
                    viol('C13.d', 'no-renewal', 'foreign device %s (ttl %ds) last registered at t=%.2f and never renewed before the end of the run at %.0f' % (fd_label, ttl, t0, desc['horizon']))
    # --- C13.e: nothing forwarded TO the FD between a processed Delete-FDT-Entry and its next registration
    for fd_label, T in tl.items():
        fd_ip = Address(nodes[fd_label]['addr']).addrTuple
        for di, (td, bb_label) in enumerate(T.deletes):
            # the next registration processed by that BBMD after the deletion (log order decides inside one instant)
            nxt = min([r[0] for ri, r in enumerate(T.regs) if r[2] == bb_label and T.reg_seq[ri] > T.delete_seq[di]] or [1e18])
            for f in w.tx:
                if f['node'] != bb_label or not (td + 1e-6 < f['t'] < nxt - 1e-6):
                    continue
                v = wire.decode_bvll(f['octets'])
                if v is not None and v['fn'] == wire.BV_FORWARDED and f['dst'] == ipstr(fd_ip):
                    viol('C13.e', 'forwarded-after-delete', 'BBMD %s forwarded to %s at t=%.2f although its table entry was deleted at t=%.2f and it had not registered again' % (bb_label, fd_label, f['t'], td))
        # --- C13.f: forwarding stops within the grace period after unregistration was processed
        for (tu, bb_label) in T.unreg_processed:
            nxt = min([r[0] for r in T.regs if r[0] > tu and r[1] > 0 and r[2] == bb_label] or [1e18])
            for f in w.tx:
                if f['node'] != bb_label or not (tu + GRACE + EPS < f['t'] < nxt - 1e-6):
                    continue
                v = wire.decode_bvll(f['octets'])
                if v is not None and v['fn'] == wire.BV_FORWARDED and f['dst'] == ipstr(fd_ip):
                    viol('C13.f', 'forwarded-after-unregister', 'BBMD %s still forwarded to %s at t=%.2f, unregistration was processed at t=%.2f' % (bb_label, fd_label, f['t'], tu))
    return out


def execute_desc(desc):
    ex = execute(desc)
    v = check(desc, ex)
    w = ex['w']
    return {'violations': v, 'digest': w.digest(), 'events_tail': [list(map(str, e)) for e in w.events[-60:] if e[2] not in ('rx', 'tx')][-30:],
            'probes': dict(w.probes), 'sim': w.sim_seconds, 'frames': w.frames, 'errors': ex['errors'], 'faults': dict(w.plan.counts)}


# ------------------------------------------------------------------ generator

def gen_expiry_race(seed, idx):
    """several foreign devices on ONE BBMD register once with short TTLs and then fall silent (crash); the table is read and a
    broadcast is originated every quarter second while the entries run out one after the other"""
    rng = rng_for(seed, 'C13x', idx)
    subnets = [{'name': 'sub0', 'router': '10.0.0.1/24'}, {'name': 'fsub', 'router': '10.9.0.1/24'}]
    nodes = [{'label': 'B0', 'kind': 'bbmd', 'addr': '10.0.0.2/24', 'subnet': 'sub0', 'bdt': ['10.0.0.2/32:%d' % PORT]},
             {'label': 'N0_0', 'kind': 'simple', 'addr': '10.0.0.3/24', 'subnet': 'sub0'}]
    events = []
    nfd = rng.randint(2, 4)
    t = 0.2
    tmax = 0.0
    tok = 0
    for k in range(nfd):
        ttl = rng.choice([1, 1, 2, 2, 3, 4, 5])
        nodes.append({'label': 'F%d' % k, 'kind': 'foreign', 'addr': '10.9.0.%d/24' % (k + 2), 'subnet': 'fsub'})
        events.append({'t': round(t, 3), 'ev': 'register', 'node': 'F%d' % k, 'bbmd': 'B0', 'ttl': ttl})
        events.append({'t': round(t + 0.1, 3), 'ev': 'crash', 'node': 'F%d' % k})
        tmax = max(tmax, t + ttl + 8)
        t += rng.choice([0.13, 0.29, 0.5, 1.0, 1.37])
    x = 0.6 + rng.random() * 0.2
    while x < tmax:
        events.append({'t': round(x, 3), 'ev': 'read_fdt', 'bbmd': 'B0'})
        tok += 1
        events.append({'t': round(x + 0.011, 3), 'ev': 'bcast', 'node': 'N0_0', 'payload': (bytes([0x01, 0x00, 0x10, 0x04]) + tok.to_bytes(3, 'big')).hex()})
        x += 0.25
    events.sort(key=lambda e: e['t'])
    return {'prop': 'C13', 'seed': H(seed, 'C13xrun', idx) & 0x7fffffff,
            'layout': {'subnets': subnets, 'nodes': nodes, 'raw': {'addr': '10.9.0.250/24', 'subnet': 'fsub'}},
            'events': events, 'horizon': round(tmax + 2, 1), 'faults': None, 'latency': rng.choice([0.0, 0.001]), 'jitter': 0.0, 'race': True}


def gen_desc(seed, idx):
    if idx % 8 == 7:
        return gen_expiry_race(seed, idx)
    rng = rng_for(seed, 'C13', idx)
    nsub = rng.randint(1, 5)
    subnets = []
    nodes = []
    bbmds = []
    for i in range(nsub):
        name = 'sub%d' % i
        subnets.append({'name': name, 'router': '10.0.%d.1/24' % i})
        h = 2
        if rng.random() < 0.8:
            b = {'label': 'B%d' % i, 'kind': 'bbmd', 'addr': '10.0.%d.%d/24' % (i, h), 'subnet': name, 'bdt': []}
            h += 1
            nodes.append(b)
            bbmds.append(b)
        for k in range(rng.randint(0, 3)):
            nodes.append({'label': 'N%d_%d' % (i, k), 'kind': 'simple', 'addr': '10.0.%d.%d/24' % (i, h), 'subnet': name})
            h += 1
    if not nodes:
        nodes.append({'label': 'N0_0', 'kind': 'simple', 'addr': '10.0.0.5/24', 'subnet': 'sub0'})
        nodes.append({'label': 'N0_1', 'kind': 'simple', 'addr': '10.0.0.6/24', 'subnet': 'sub0'})
    full = rng.random() < 0.6
    for b in bbmds:
        ip = b['addr'].split('/')[0]
        if rng.random() < 0.9:
            b['bdt'].append('%s/32:%d' % (ip, PORT))
        for c in bbmds:
            if c is b:
                continue
            if full or rng.random() < 0.6:
                cip = c['addr'].split('/')[0]
                b['bdt'].append(('%s/32:%d' if rng.random() < 0.5 else '%s/24:%d') % (cip, PORT))
    subnets.append({'name': 'fsub', 'router': '10.9.0.1/24'})
    fds = []
    events = []
    tok = [0]

    def payload():
        tok[0] += 1
        return bytes([0x01, 0x00, 0x10, 0x04]) + tok[0].to_bytes(3, 'big')   # looks like an NPDU+unconfirmed APDU
    horizon = 0.0
    if bbmds:
        for k in range(rng.randint(0, 4)):
            ttl = rng.choice([1, 2, 5, 10, 30, 60, 120, 300])
            fd = {'label': 'F%d' % k, 'kind': 'foreign', 'addr': '10.9.0.%d/24' % (k + 2), 'subnet': 'fsub'}
            nodes.append(fd)
            b = rng.choice(bbmds)
            t0 = round(rng.choice([0.0, 0.5, 3.0, 10.0]) + rng.random(), 3)
            events.append({'t': t0, 'ev': 'register', 'node': fd['label'], 'bbmd': b['label'], 'ttl': ttl})
            fds.append((fd, b, ttl, t0))
            horizon = max(horizon, t0 + 3.3 * ttl + GRACE + 10)
    horizon = max(horizon, 20.0)
    horizon = min(horizon, 1100.0)
    faults = None
    fault_mode = rng.choice(['none', 'none', 'none', 'crash', 'drop-reg', 'none'])
    # foreign device life-cycle events
    for (fd, b, ttl, t0) in fds:
        u = rng.random()
        if u < 0.25:
            tu = round(t0 + rng.choice([0.5, ttl * 0.5, ttl * 1.5, ttl * 2.2]) + rng.random(), 3)
            events.append({'t': tu, 'ev': 'unregister', 'node': fd['label']})
            if rng.random() < 0.4:
                events.append({'t': round(tu + rng.choice([1.0, 7.0, 40.0]), 3), 'ev': 'register', 'node': fd['label'], 'bbmd': b['label'], 'ttl': ttl})
        elif u < 0.45:
            events.append({'t': round(t0 + rng.choice([0.7, ttl * 0.5, ttl * 1.3]) + rng.random(), 3), 'ev': 'delete_fdt', 'bbmd': b['label'], 'fd': fd['label']})
        elif u < 0.6 and fault_mode != 'crash':
            # register() again while registered: another time-to-live with the same BBMD (takes effect at once)
            ttl2 = rng.choice([x for x in [2, 5, 10, 30, 60, 120, 300] if x != ttl])
            tr = round(t0 + rng.choice([0.6, ttl * 0.4, ttl * 1.2, ttl * 2.1]) + rng.random(), 3)
            events.append({'t': tr, 'ev': 'register', 'node': fd['label'], 'bbmd': b['label'], 'ttl': ttl2})
            horizon = min(1100.0, max(horizon, tr + 2.3 * ttl2 + GRACE + 10))
        elif u < 0.6 and fault_mode == 'crash':
            events.append({'t': round(t0 + rng.choice([0.7, ttl * 0.5, ttl * 1.3]) + rng.random(), 3), 'ev': 'crash', 'node': fd['label']})
    if fault_mode == 'drop-reg':
        faults = {'mode': 'hashed', 'rates': {'drop': rng.choice([0.1, 0.3])}, 'salt': rng.randrange(1 << 30),
                  'roles': ['bvll-register-fd', 'bvll-result']}
    if fault_mode == 'stall':
        events.append({'t': round(rng.random() * horizon * 0.7, 3), 'ev': 'stall', 'd': rng.choice([2.0, 10.0, 45.0])})
    # broadcasts from every kind of node at seeded instants
    nb = rng.randint(5, 40)
    for _ in range(nb):
        n = rng.choice(nodes)
        t = round(rng.random() * (horizon - 3.0), 3)
        # some land right on interesting instants
        if fds and rng.random() < 0.3:
            fd, b, ttl, t0 = rng.choice(fds)
            t = round(t0 + rng.choice([0.0, 0.01, ttl, ttl + 4.5, ttl + 5.5, ttl + 31.0, 2 * ttl, 0.9 * ttl]) + rng.choice([0.0, 0.002]), 3)
            t = min(max(t, 0.0), horizon - 3.0)
        events.append({'t': t, 'ev': 'bcast', 'node': n['label'], 'payload': payload().hex()})
    for b in bbmds:
        for _ in range(rng.randint(0, 3)):
            events.append({'t': round(rng.random() * (horizon - 3.0), 3), 'ev': 'read_fdt', 'bbmd': b['label']})
    events.sort(key=lambda e: e['t'])
    return {'prop': 'C13', 'seed': H(seed, 'C13run', idx) & 0x7fffffff,
            'layout': {'subnets': subnets, 'nodes': nodes, 'raw': {'addr': '10.9.0.250/24', 'subnet': 'fsub'}},
            'events': events, 'horizon': round(horizon, 1), 'faults': faults,
            'latency': rng.choice([0.0, 0.001, 0.01]), 'jitter': rng.choice([0.0, 0.0, 0.005, 0.05])}


def run_unit(unit):
    agg = Agg()
    for idx in range(unit['start'], unit['start'] + unit['count']):
        d = gen_desc(unit['seed'], idx)
        r = execute_desc(d)
        agg.evals += 1
        agg.sim_seconds += r['sim']
        for k, v in r['faults'].items():
            agg.stat('fault.' + k, v)
        for k, v in r['probes'].items():
            agg.stat(('fault.' if k in ('crash', 'stall') else 'probe.') + k, v)
        for e in r['errors']:
            agg.stat('looperr.%s:%s:%s' % (e[1], e[2], e[3]))
        lay = d['layout']
        kinds = [n['kind'] for n in lay['nodes']]
        agg.stat('probe.nodes_bbmd', kinds.count('bbmd'))
        agg.stat('probe.nodes_simple', kinds.count('simple'))
        agg.stat('probe.nodes_foreign', kinds.count('foreign'))
        for ev in d['events']:
            agg.stat('probe.ev_' + ev['ev'])
        if d.get('jitter'):
            agg.stat('fault.delay_runs')
        agg.stat('probe.frames', r['frames'])
        agg.sigs.add(H(tuple((n['kind'], n['subnet'], tuple(n.get('bdt', []))) for n in lay['nodes']),
                       tuple((e['ev'], e.get('node'), e['t']) for e in d['events'])))
        if len(agg.samples) < 2 and len(d['events']) < 20:
            agg.samples.append({'desc': d, 'frames': r['frames']})
        for v in r['violations']:
            agg.violation(v, d)
    return agg.result()


def units(tier, seed):
    n = 6000 if tier == 'thorough' else 500
    return [{'kind': 'explore', 'seed': seed, 'start': k * 8, 'count': 8} for k in range(n)]


def selftest_descs(tier, seed):
    return [gen_desc(seed, 9000003 + i) for i in range(3)]


def evidence(tier, seed, total):
    return {
        'level': LEVEL,
        'coverage': {
            'rule': '[additions: register() again while registered with another TTL; expiry races of two foreign devices with staggered TTLs; the declared-remaining promise of every Read-FDT-Ack is held against later listings and forwarding] Each world is a seeded layout of 1-5 IP subnets joined by the repo\'s IPRouter with 0-1 BIPBBMD and 0-3 BIPSimple nodes per subnet, full or '
                    'partial distribution tables written as /32 (two-hop) or /24 (one-hop directed broadcast) entries, 0-4 BIPForeign devices on a subnet without BBMD '
                    'with TTLs 1-300 s, each stack running the real UDPMultiplexer/AnnexJCodec on the in-memory director. 5-40 broadcasts from every kind of node at '
                    'seeded instants (30% placed on registration / TTL / TTL+grace edges), unregister / re-register, Delete-FDT-Entry and Read-FDT sent by a raw host '
                    '(harness BVLL encoder/decoder), virtual time over > 3 TTLs; per-datagram seeded delays; fault modes: foreign-device crash, loss of registrations / '
                    'results, loop stall. Distinct = distinct (layout, event list) tuples; every world is non-trivial (>= 5 broadcasts distributed).',
            'components_real': ['bvllservice.BIPSimple/BIPForeign/BIPBBMD', 'bvllservice.UDPMultiplexer', 'bvllservice.AnnexJCodec', 'bvll codecs', 'vlan.IPNetwork/IPNode/IPRouter',
                                'task.TaskManager (BBMD one-second ageing, FD renewal, registration tracking)', 'core.run_once/deferred'],
            'components_stub': ['UDP sockets (in-memory director keeping the deferred hand-off)', 'wall clock', 'subnet delay/loss layer', 'raw host issuing BVLL management requests'],
        },
        'assumptions': ['population model of the distribution tables and the registration timeline model in bacsim/props/c13.py are correct',
                        'grace period judged with the standard\'s 30 s: between TTL and TTL+30 s either behaviour is accepted; +-1.5 s around every timeline edge is accepted either way',
                        'whether a BBMD distributes a Distribute-Broadcast-To-Network from a device whose entry lapsed is not stated by the property and accepted either way',
                        'exactly-once / must-reach clauses are evaluated on fault-free runs; under injected loss, crash or stall only never-twice / never-to-an-unserved-node',
                        'a node on a subnet without BBMD reaches its own subnet only'],
    }
