"""
C19 -- routing knowledge stays coherent: one next hop per destination, newest
wins.  (i) the bare RouterInfoCache under enumerated and seeded operation
sequences against a reference map; (ii) the same kind of history driven
through real network-layer messages (I-Am-Router-To-Network from competing
raw routers delivered in seeded order, routed traffic revealing source
networks, Network-Number-Is, public delete calls) into a complete station
stack whose emitted frames must follow the current knowledge.
"""

import copy
import itertools

from .. import env, wire
from ..env import clock, tm, errlog
from ..world import World, H, SimNode
from ..driver import Agg
from ..txngen import rng_for
from ..stacks import SimDevice, VENDOR
from .c06 import StationApp, QuietNSE

import bacpypes.core as core
from bacpypes.comm import bind, Client
from bacpypes.pdu import Address, PDU, LocalBroadcast, RemoteStation
from bacpypes.netservice import RouterInfoCache, NetworkServiceAccessPoint, NetworkServiceElement
from bacpypes.appservice import StateMachineAccessPoint, ApplicationServiceAccessPoint

ID = 'C19'
LEVEL = 'exploration'
BUDGET = {'quick': 45, 'thorough': 700}
SHRINK_LISTS = [('ops',)]


# ------------------------------------------------------------------ (i) bare cache

def run_cache(desc):
    """returns (violations, log)"""
    out = []
    seen = set()

    def viol(clause, what, detail, **sig):
        if (clause, what) in seen:
            return
        seen.add((clause, what))
        s = {'kind': what, 'part': 'cache'}
        s.update(sig)
        out.append({'clause': clause, 'detail': detail, 'sigkey': what, 'sig': s})

    cache = RouterInfoCache()
    model = {}      # (snet, dnet) -> router mac
    snets = set(desc['snets'])
    dnets = list(desc['dnets'])
    routers = list(desc['routers'])
    log = []
    for i, op in enumerate(desc['ops']):
        k = op[0]
        try:
            if k == 'learn':
                _, s, r, D = op
                cache.update_router_info(s, Address(r), list(D))
                for d in D:
                    model[(s, d)] = r
            elif k == 'forget_router':
                _, s, r = op
                cache.delete_router_info(s, address=Address(r))
                for key in [key for key, v in model.items() if key[0] == s and v == r]:
                    del model[key]
            elif k == 'forget_dnets_of':
                _, s, r, D = op
                cache.delete_router_info(s, address=Address(r), dnets=list(D))
                for d in D:
                    if model.get((s, d)) == r:
                        del model[(s, d)]
            elif k == 'forget_dnets':
                _, s, D = op
                cache.delete_router_info(s, dnets=list(D))
                for d in D:
                    model.pop((s, d), None)
            elif k == 'renumber':
                _, old, new = op
                cache.update_source_network(old, new)
                for key in [key for key in model if key[0] == old]:
                    model[(new, key[1])] = model.pop(key)
                if old in snets:
                    snets.discard(old)
                    snets.add(new)
            else:
                raise ValueError(k)
        except Exception as e:
            viol('C19.c', 'operation-raised', 'op #%d %r raised %s: %s' % (i, op, type(e).__name__, e), op=k, exc=type(e).__name__)
            log.append((i, 'raised', type(e).__name__))
            break
        log.append((i, k))
        # ---- compare every pair
        all_s = sorted(snets | set(kk[0] for kk in model), key=lambda x: (x is None, x))
        for s in all_s:
            for d in dnets:
                ri = cache.get_router_info(s, d)
                want = model.get((s, d))
                got = int(str(ri.address)) if ri is not None else None
                if got != want:
                    if k == 'learn':
                        clause = 'C19.b'
                    elif k == 'renumber':
                        clause = 'C19.d'
                    else:
                        clause = 'C19.c'
                    viol(clause, 'lookup-mismatch:' + k, 'after op #%d %r: (%r -> %r) resolves to router %r, the reference map says %r' % (i, op, s, d, got, want), op=k)
                if ri is not None:
                    if d not in ri.dnets:
                        viol('C19.a', 'resolves-but-not-credited', 'after op #%d %r: (%r -> %r) resolves to router %s which is not credited with that destination (%r)'
                             % (i, op, s, d, ri.address, sorted(ri.dnets)), op=k)
                    if ri.snet != s:
                        viol('C19.a' if k != 'renumber' else 'C19.d', 'record-source-network', 'after op #%d %r: (%r -> %r) resolves to a record of source network %r' % (i, op, s, d, ri.snet), op=k)
        # every destination credited to a router record can be looked up and leads to that router (read-only probe of the records)
        for s, recs in cache.routers.items():
            for addr, ri in recs.items():
                for d in ri.dnets:
                    back = cache.get_router_info(s, d)
                    if back is not ri:
                        viol('C19.a', 'credited-but-unresolvable', 'after op #%d %r: router %s on source network %r is credited with destination %r which resolves to %s'
                             % (i, op, addr, s, d, back.address if back else None), op=k)
                if not ri.dnets:
                    pass
    return out, log


def gen_cache_desc(seed, idx):
    rng = rng_for(seed, 'C19c', idx)
    snets = rng.sample([1, 2, 3, None], rng.randint(1, 2))
    routers = rng.sample(range(1, 9), rng.randint(1, 3))
    dnets = rng.sample(range(10, 60), rng.randint(2, 6))
    ops = []
    cur = list(snets)
    fresh = itertools.count(100)
    n = rng.randint(1, 300) if rng.random() < 0.3 else rng.randint(1, 25)
    for _ in range(n):
        u = rng.random()
        s = rng.choice(cur)
        if u < 0.5:
            ops.append(['learn', s, rng.choice(routers), sorted(rng.sample(dnets, rng.randint(1, min(3, len(dnets)))))])
        elif u < 0.65:
            ops.append(['forget_router', s, rng.choice(routers)])
        elif u < 0.8:
            ops.append(['forget_dnets_of', s, rng.choice(routers), sorted(rng.sample(dnets, rng.randint(1, min(3, len(dnets)))))])
        elif u < 0.92:
            ops.append(['forget_dnets', s, sorted(rng.sample(dnets, rng.randint(1, min(3, len(dnets)))))])
        else:
            new = next(fresh)
            ops.append(['renumber', s, new])
            cur[cur.index(s)] = new
    return {'prop': 'C19', 'part': 'cache', 'seed': H(seed, 'C19crun', idx) & 0x7fffffff, 'snets': snets, 'routers': routers, 'dnets': dnets, 'ops': ops}


def enum_cache_descs(length, mod, rem):
    snets = [1, 2]
    routers = [1, 2, 3]
    dnets = [10, 20, 30, 40]
    alpha = []
    for s in snets:
        for r in routers:
            alpha.append(['learn', s, r, [10]])
            alpha.append(['learn', s, r, [10, 20]])
            alpha.append(['learn', s, r, [30, 40]])
            alpha.append(['forget_router', s, r])
            alpha.append(['forget_dnets_of', s, r, [10]])
        alpha.append(['forget_dnets', s, [10]])
        alpha.append(['forget_dnets', s, [20, 30]])
    alpha.append(['renumber', 1, 7])
    n = 0
    for seqops in itertools.product(range(len(alpha)), repeat=length):
        if n % mod == rem:
            ops = []
            cur = {1: 1, 2: 2}
            ok = True
            for i in seqops:
                op = copy.deepcopy(alpha[i])
                if op[0] == 'renumber':
                    if cur[1] != 1:
                        ok = False
                        break
                    cur[1] = 7
                else:
                    op[1] = cur[op[1]]
                ops.append(op)
            if ok:
                yield {'prop': 'C19', 'part': 'cache', 'seed': 0, 'snets': snets, 'routers': routers, 'dnets': dnets, 'ops': ops}
        n += 1


# ------------------------------------------------------------------ (ii) message driven

STATION_MAC = 50


class MsgRun:
    def __init__(self, desc):
        self.desc = desc
        w = World(desc['seed'], faults=None, frame_cap=20000, tick_cap=300000, latency=0.0, jitter=desc.get('jitter', 0.0))
        self.w = w
        lan = w.new_network('lan')
        dev = SimDevice(objectName='st', objectIdentifier=('device', 3001), vendorIdentifier=VENDOR)
        self.app = StationApp(w, 'st', dev)
        self.app.replies = False
        self.asap = ApplicationServiceAccessPoint()
        self.smap = StateMachineAccessPoint(dev)
        self.smap.deviceInfoCache = self.app.deviceInfoCache
        self.nsap = NetworkServiceAccessPoint()
        self.nse = QuietNSE()
        bind(self.nse, self.nsap)
        bind(self.app, self.asap, self.smap, self.nsap)
        self.node = SimNode(w, 'st', Address(STATION_MAC), lan)
        self.knows = desc.get('station_net')
        if self.knows is not None:
            self.nsap.bind(self.node, self.knows, Address(STATION_MAC))
        else:
            self.nsap.bind(self.node)
        self.raws = {}
        for r in desc['routers']:
            n = SimNode(w, 'R%d' % r, Address(r), lan)
            sink = _Sink()
            bind(sink, n)
            n._sink = sink
            self.raws[r] = n
        self.probe_log = []      # (step, dnet, tok)

    def run(self):
        w = self.w
        desc = self.desc
        t = 1.0
        tok = [0]
        for i, step in enumerate(desc['ops']):
            w.at(t, self.do_step, i, step)
            # probes a little later, after every announcement of the step was delivered
            w.at(t + 5.0, self.do_probe, i, tok)
            t += 10.0
        res = w.run(until=t + 30.0)
        self.errors = list(errlog.records)
        tm.tasks = []
        core.deferredFns = []
        return res

    def do_step(self, i, step):
        w = self.w
        w.log('step', i, repr(step)[:80])
        for act in step:
            k = act[0]
            if k == 'iam':
                _, r, D = act
                self.raws[r].indication(PDU(wire.encode_npdu(msg=wire.NM_I_AM_ROUTER, msgdata=wire.pack_nets(D)), destination=LocalBroadcast()))
            elif k == 'routed':
                _, r, snet, smac = act
                apdu = wire.unconf_req(4, wire.ctx_uint(0, VENDOR) + wire.ctx_uint(1, 0x50000000 + i))
                self.raws[r].indication(PDU(wire.encode_npdu(apdu, snet=snet, sadr=bytes([smac])), destination=Address(STATION_MAC)))
            elif k == 'netnum':
                _, r, n = act
                self.raws[r].indication(PDU(wire.encode_npdu(msg=wire.NM_NETNUM_IS, msgdata=wire.pack_nets([n]) + b'\x01'), destination=LocalBroadcast()))
            elif k == 'delete_router':
                _, r = act
                snet = self.current_snet()
                try:
                    self.nsap.delete_router_references(snet, Address(r))
                    w.log('api', 'delete_router', r, 'ok')
                except Exception as e:
                    w.log('api', 'delete_router', r, type(e).__name__)
            elif k == 'delete_dnets':
                _, D = act
                snet = self.current_snet()
                try:
                    self.nsap.delete_router_references(snet, None, list(D))
                    w.log('api', 'delete_dnets', repr(D), 'ok')
                except Exception as e:
                    w.log('api', 'delete_dnets', repr(D), type(e).__name__)
            else:
                raise ValueError(k)

    def current_snet(self):
        return list(self.nsap.adapters.keys())[0]

    def do_probe(self, i, tok):
        w = self.w
        for d in self.desc['dnets']:
            tok[0] += 1
            self.probe_log.append((w.seq, i, d, tok[0], w.now))
            self.app.send(tok[0], RemoteStation(d, 1))


class _Sink(Client):
    def confirmation(self, pdu):
        pass


def check_msg(desc, run, res):
    out = []
    seen = set()
    w = run.w

    def viol(clause, what, detail, **sig):
        if (clause, what) in seen:
            return
        seen.add((clause, what))
        s = {'kind': what, 'part': 'messages'}
        s.update(sig)
        out.append({'clause': clause, 'detail': detail, 'sigkey': what, 'sig': s})

    if res == 'budget':
        viol('C19.e', 'budget', 'run exceeded its frame budget')
        return out
    # model follows the DELIVERY order at the station node
    model = {}
    station_net = desc.get('station_net')
    net_configured = station_net is not None
    api_events = [e for e in w.events if e[2] == 'api']
    timeline = []
    for f in w.rx:
        if f['node'] == 'st':
            timeline.append((f['seq'], 'rx', f))
    for e in api_events:
        timeline.append((e[0], 'api', e))
    for (seq, i, d, tok, tp) in run.probe_log:
        timeline.append((seq, 'probe', (i, d, tok, tp)))
    timeline.sort(key=lambda x: x[0])
    probes = {}
    for seq, kind, x in timeline:
        if kind == 'rx':
            n = wire.decode_npdu(x['octets'])
            if n is None:
                continue
            try:
                r = int(x['src'])
            except ValueError:
                continue
            if n['netmsg']:
                if n['msg'] == wire.NM_I_AM_ROUTER:
                    for d in wire.nets_of(n['msgdata']):
                        model[d] = r
                elif n['msg'] == wire.NM_NETNUM_IS and not net_configured:
                    station_net = wire.nets_of(n['msgdata'][:2])[0]
            elif n['snet'] is not None:
                if n['snet'] != station_net or station_net is None:
                    model[n['snet']] = r
        elif kind == 'api':
            if x[-1] != 'ok':
                viol('C19.c', 'public-delete-raised', 'NetworkServiceAccessPoint.delete_router_references(%s %s) raised %s' % (x[3], x[4], x[-1]), api=x[3], exc=x[-1])
                # the model cannot know what state an aborted operation left behind
                return out
            if x[3] == 'delete_router':
                for d in [d for d, v in model.items() if v == x[4]]:
                    del model[d]
            else:
                for d in eval(x[4]):
                    model.pop(d, None)
        else:
            i, d, tok, tp = x
            probes[tok] = (seq, i, d, model.get(d), station_net, tp)
    # what the station emitted for each probe
    by_tok = {}
    for f in w.tx:
        if f['node'] != 'st':
            continue
        n = wire.decode_npdu(f['octets'])
        if n is None:
            continue
        if n['netmsg']:
            continue
        a = wire.decode_apdu(n['apdu'])
        if a is None or a['type'] != wire.T_UNCONF:
            continue
        try:
            tags = wire.parse_tags(a['data'])
            tok = int.from_bytes(tags[1][3], 'big')
        except Exception:
            continue
        by_tok.setdefault(tok, []).append(f)
    whois = [f for f in w.tx if f['node'] == 'st' and (wire.decode_npdu(f['octets']) or {}).get('msg') == wire.NM_WHO_IS_ROUTER]
    for tok, (seq, i, d, want, snet, t_probe) in sorted(probes.items()):
        if d == snet:
            continue            # destination is (by now) the station's own network: local delivery, not routing
        frames = [f for f in by_tok.get(tok, [])]
        first = frames[0] if frames else None
        immediate = [f for f in frames if f['seq'] > seq and f['t'] < t_probe + 2.0]
        if want is not None:
            if not immediate:
                viol('C19.e', 'not-sent-despite-knowledge', 'step %d: packet for network %d was not sent although the current knowledge names router %d (frames for it: %r)'
                     % (i, d, want, [(f['seq'], f['dst']) for f in frames][:3]))
            elif immediate[0]['dst'] != str(want):
                viol('C19.e', 'wrong-next-hop', 'step %d: packet for network %d went to %s, the newest knowledge names router %d' % (i, d, immediate[0]['dst'], want))
        else:
            if immediate:
                viol('C19.e', 'sent-without-knowledge', 'step %d: packet for network %d was sent to %s although nothing is known about that network (reference map %r)'
                     % (i, d, immediate[0]['dst'], sorted(model.items())))
            else:
                asked = [f for f in whois if f['seq'] > seq and f['t'] < t_probe + 2.0 and wire.nets_of(wire.decode_npdu(f['octets'])['msgdata']) == [d]]
                pending_before = any(p[2] == d and p[0] < seq and p[3] is None for p in probes.values())
                if not asked and not pending_before:
                    viol('C19.e', 'no-question', 'step %d: nothing is known about network %d and the station did not ask (Who-Is-Router-To-Network)' % (i, d))
    return out


def gen_msg_desc(seed, idx):
    rng = rng_for(seed, 'C19m', idx)
    routers = rng.sample(range(1, 9), rng.randint(2, 3))
    dnets = rng.sample(range(10, 40), rng.randint(2, 4))
    station_net = rng.choice([None, 5, 5])
    steps = []
    for _ in range(rng.randint(2, 12)):
        step = []
        for _a in range(rng.randint(1, 3)):
            u = rng.random()
            if u < 0.55:
                step.append(['iam', rng.choice(routers), sorted(rng.sample(dnets, rng.randint(1, len(dnets))))])
            elif u < 0.75:
                step.append(['routed', rng.choice(routers), rng.choice(dnets), rng.randint(1, 9)])
            elif u < 0.83 and station_net is None:
                step.append(['netnum', rng.choice(routers), rng.choice([5, 6])])
            elif u < 0.92:
                step.append(['delete_router', rng.choice(routers)])
            else:
                step.append(['delete_dnets', sorted(rng.sample(dnets, rng.randint(1, 2)))])
        steps.append(step)
    return {'prop': 'C19', 'part': 'messages', 'seed': H(seed, 'C19mrun', idx) & 0x7fffffff, 'routers': routers, 'dnets': dnets,
            'station_net': station_net, 'ops': steps, 'jitter': rng.choice([0.0, 0.01, 0.5, 2.0])}


# ------------------------------------------------------------------ driver glue

def execute_desc(desc):
    if desc['part'] == 'cache':
        v, log = run_cache(desc)
        import hashlib
        return {'violations': v, 'digest': hashlib.sha256(repr(log).encode() + repr(v).encode()).hexdigest(), 'events_tail': [list(map(str, e)) for e in log[-20:]],
                'sim': 0.0, 'probes': {}, 'errors': []}
    run = MsgRun(desc)
    res = run.run()
    v = check_msg(desc, run, res)
    w = run.w
    return {'violations': v, 'digest': w.digest(), 'events_tail': [list(map(str, e)) for e in w.events[-80:] if e[2] in ('step', 'api', 'send', 'wire')][-30:],
            'sim': w.sim_seconds, 'probes': dict(w.probes), 'errors': run.errors}


def _account(agg, d, r):
    agg.evals += 1
    agg.sim_seconds += r['sim']
    agg.stat('probe.part_' + d['part'])
    for e in r['errors']:
        agg.stat('looperr.%s:%s:%s' % (e[1], e[2], e[3]))
    if d['part'] == 'cache':
        for op in d['ops']:
            agg.stat('probe.op_' + op[0])
    else:
        for st in d['ops']:
            for a in st:
                agg.stat('probe.msg_' + a[0])
        if d.get('jitter'):
            agg.stat('fault.delay_reorder_runs')
    agg.sigs.add(H(d['part'], repr(d['ops']), repr(d.get('routers')), repr(d.get('station_net'))))
    if len(agg.samples) < 2 and len(d['ops']) < 10:
        agg.samples.append({'desc': d, 'events_tail': r['events_tail'][-8:]})
    for v in r['violations']:
        agg.violation(v, d)


def run_unit(unit):
    agg = Agg()
    k = unit['kind']
    if k == 'cache':
        for idx in range(unit['start'], unit['start'] + unit['count']):
            d = gen_cache_desc(unit['seed'], idx)
            _account(agg, d, execute_desc(d))
    elif k == 'msg':
        for idx in range(unit['start'], unit['start'] + unit['count']):
            d = gen_msg_desc(unit['seed'], idx)
            _account(agg, d, execute_desc(d))
    else:
        for d in enum_cache_descs(unit['length'], unit['mod'], unit['rem']):
            _account(agg, d, execute_desc(d))
        agg.cells += 1
    return agg.result()


def units(tier, seed):
    us = []
    if tier == 'quick':
        for rem in range(16):
            us.append({'kind': 'enum', 'must': True, 'length': 3, 'mod': 16, 'rem': rem})
        n = 2500
    else:
        for rem in range(128):
            us.append({'kind': 'enum', 'must': True, 'length': 4, 'mod': 128, 'rem': rem})
        n = 25000
    for k in range(n):
        us.append({'kind': 'cache', 'seed': seed, 'start': k * 60, 'count': 60})
        us.append({'kind': 'msg', 'seed': seed, 'start': k * 10, 'count': 10})
    return us


def selftest_descs(tier, seed):
    return [gen_cache_desc(seed, 12000003), gen_msg_desc(seed, 12000003), gen_msg_desc(seed, 12000004)]


def evidence(tier, seed, total):
    return {
        'level': LEVEL,
        'coverage': {
            'rule': 'Part (i), bare RouterInfoCache: ALL operation sequences of the stated length over {learn(1-2 destinations), forget router, forget destinations of a router, forget destinations, '
                    'renumber source network} with 2 source networks x 3 routers x 4 destinations (enumerated), and seeded sequences of 1-300 operations; after every operation every '
                    '(source network, destination) pair is looked up and compared with a reference map, and every destination credited to a router record must resolve to that record. '
                    'Part (ii), messages: a complete station stack on a LAN with 2-3 raw nodes acting as competing routers; 2-12 steps of I-Am-Router-To-Network announcements (several in one '
                    'instant, delivered in seeded order: jitter up to 2 s), routed traffic whose SADR reveals a source network, Network-Number-Is, public delete_router_references calls; after '
                    'each step the station sends one packet to every destination network and the next-hop MAC on the wire must be the router the reference map (which follows the delivery '
                    'order) names, or a Who-Is-Router-To-Network when nothing is known. Distinct = distinct (part, op list, routers, station network) tuples; every history is non-trivial.',
            'enumerated_cells': total['cells'],
            'components_real': ['netservice.RouterInfoCache', 'netservice.NetworkServiceAccessPoint (process_npdu learning, indication routing, pending_nets)', 'netservice.NetworkServiceElement',
                                'npdu codecs', 'station application stack'],
            'components_stub': ['wall clock', 'LAN delay layer', 'raw router nodes (harness-encoded network messages and routed frames)'],
        },
        'assumptions': ['the reference map is correct', 'renumbering targets a source-network number not in use (two adapters cannot share a number)',
                        'after a public delete call raised, the run is not judged further (the state an aborted operation leaves is unspecified)',
                        'packets parked behind a Who-Is-Router-To-Network and released by a later announcement are not judged'],
    }
