"""
C14 -- scheduled work runs once, in order, never early; failures stay
isolated.  The real TaskManager heap code is driven by (A) the real
core.run_once stepped under a virtual clock and (B) the real core.run with
asyncore.loop replaced by a shim and the wake-up pipe by an in-memory flag.
A monitor (reference scheduler) consumes the log of every API call and every
callback and checks each step.
"""

import copy
import functools
import hashlib
import itertools
from fractions import Fraction

from .. import env
from ..env import clock, tm, BudgetExceeded, MemTrigger
from ..driver import Agg
from ..world import H
from ..txngen import rng_for

import bacpypes.core as core
import bacpypes.task as btask
from bacpypes.task import OneShotTask, OneShotDeleteTask, RecurringTask, FunctionTask, OneShotFunction

ID = 'C14'
LEVEL = 'exploration'
BUDGET = {'quick': 45, 'thorough': 700}
SHRINK_LISTS = [('ops',)]

TOL = 2e-6
ACTION_BUDGET = 40
EPOCH = 1000000000.0


class _Raise(Exception):
    pass


class _Callable(object):
    """a callable object (no __name__ attribute)"""

    def __init__(self, run, fid, template):
        self.args = (run, fid, template)

    def __call__(self):
        run, fid, template = self.args
        run.called(fid, template)


# ------------------------------------------------------------------ harness side

class Run:
    """One execution of an op sequence against the real scheduler."""

    def __init__(self, desc, driver):
        self.desc = desc
        self.driver = driver
        env.reset_process_state()
        clock.tick_cap = 30000
        clock.now = desc.get('epoch', EPOCH)
        self.t0 = clock.now
        self.log = []
        self.nfid = 0
        self.actions_left = ACTION_BUDGET
        self.tasks = {}
        self.rtasks = {}
        self.budget = False
        run = self

        class T(OneShotTask):
            def __init__(self, tid):
                OneShotTask.__init__(self)
                self.tid = tid

            def process_task(self):
                run.fired('fire', self.tid)

        class TD(OneShotDeleteTask):
            def __init__(self, tid):
                OneShotDeleteTask.__init__(self)
                self.tid = tid

            def process_task(self):
                run.fired('fire', self.tid)

        class R(RecurringTask):
            def __init__(self, rid):
                RecurringTask.__init__(self)
                self.rid = rid

            def process_task(self):
                run.fired('rfire', self.rid)

        for tid in range(desc.get('ntasks', 4)):
            self.tasks[tid] = (TD if tid % 3 == 2 else T)(tid)
        for rid in range(desc.get('nrec', 2)):
            self.rtasks[rid] = R(rid)

    # -- logging wrappers around the public API -------------------------
    def ev(self, *rec):
        self.log.append(rec + (clock.now,))

    def api(self, op):
        k = op[0]
        try:
            if k in ('install_at', 'install_after', 'suspend', 'resume') and op[1] not in self.tasks:
                return
            if k in ('rinstall', 'rsuspend') and op[1] not in self.rtasks:
                return
            if k == 'install_at':
                self.ev('install', op[1], self.t0 + op[2])
                self.tasks[op[1]].install_task(when=self.t0 + op[2])
            elif k == 'install_after':
                self.ev('install', op[1], clock.now + op[2])
                self.tasks[op[1]].install_task(delta=op[2])
            elif k == 'suspend':
                self.ev('suspend', op[1])
                self.tasks[op[1]].suspend_task()
            elif k == 'resume':
                t = self.tasks[op[1]]
                if t.taskTime is None:
                    return
                self.ev('install', op[1], t.taskTime)
                t.resume_task()
            elif k == 'rinstall':
                self.ev('rinstall', op[1], op[2], op[3])
                self.rtasks[op[1]].install_task(op[2], op[3])
            elif k == 'rsuspend':
                self.ev('rsuspend', op[1])
                self.rtasks[op[1]].suspend_task()
            elif k == 'defer':
                self.defer(op[1])
            elif k == 'fn_after':
                # FunctionTask / OneShotFunction flavours
                self.nfid += 1
                fid = self.nfid
                self.ev('finstall', fid, clock.now + op[1])
                if op[1] == 0 and op[2]:
                    OneShotFunction(self.fcall, fid)
                else:
                    FunctionTask(self.fcall, fid).install_task(delta=op[1])
            else:
                raise ValueError(k)
        except BudgetExceeded:
            raise
        except _Raise:
            raise
        except Exception as e:
            self.ev('api_exc', k, type(e).__name__)

    def fcall(self, fid):
        self.ev('ffire', fid)

    def defer(self, template):
        self.nfid += 1
        fid = self.nfid
        self.ev('defer', fid, template)
        # the queue accepts any callable: bound methods, partials (no __name__) and callable objects
        flavour = fid % 3
        if flavour == 0:
            core.deferred(self.called, fid, template)
        elif flavour == 1:
            core.deferred(functools.partial(self.called, fid), template)
        else:
            core.deferred(_Callable(self, fid, template))

    def called(self, fid, template):
        self.ev('call', fid)
        self.body(self.desc['ftemplates'][template])

    def fired(self, kind, ident):
        self.ev(kind, ident)
        bodies = self.desc['bodies' if kind == 'fire' else 'rbodies']
        self.body(bodies.get(str(ident), []))

    def body(self, actions):
        for a in actions:
            if a[0] == 'raise':
                raise _Raise('scripted failure')
            if self.actions_left <= 0:
                return
            self.actions_left -= 1
            self.api(a)

    # -- driver A: real run_once, stepped --------------------------------
    def run_stepped(self):
        try:
            for op in self.desc['ops']:
                if op[0] == 'advance':
                    self.advance(op[1], op[2])
                elif op[0] == 'jump':
                    self.ev('jump', op[1])
                    clock.now += op[1]
                else:
                    self.api(op)
            self.advance(0.0, 'exact')
        except BudgetExceeded:
            self.budget = True
            tm.tasks = []
            core.deferredFns = []

    def until_idle(self):
        stuck = 0
        while core.deferredFns or (tm.tasks and tm.tasks[0][0] <= clock.now):
            before = (len(self.log), len(tm.tasks), len(core.deferredFns))
            core.run_once()
            after = (len(self.log), len(tm.tasks), len(core.deferredFns))
            if before == after:
                stuck += 1
                if stuck > 2:
                    self.ev('stuck', tm.tasks[0][0] if tm.tasks else None)
                    return False
            else:
                stuck = 0
        return True

    def advance(self, d, mode):
        target = clock.now + d
        self.ev('advance', d, mode)
        if mode == 'exact':
            while True:
                if not self.until_idle():
                    break
                if tm.tasks and tm.tasks[0][0] <= target:
                    if tm.tasks[0][0] > clock.now:
                        clock.now = tm.tasks[0][0]
                    continue
                break
            if clock.now < target:
                clock.now = target
        else:
            clock.now = target
        ok = self.until_idle()
        self.ev('idle', ok)

    # -- driver B: the real core.run() under a shimmed asyncore -----------
    def run_real(self):
        trig = MemTrigger()
        tm.trigger = trig
        core.taskManager = tm
        run = self
        ops = list(self.desc['ops']) + [('advance', 0.0, 'exact')]
        state = {'i': 0, 'wait_until': None, 'loops': 0}

        class Shim:
            @staticmethod
            def loop(timeout=30.0, use_poll=False, map=None, count=None):
                state['loops'] += 1
                if state['loops'] > 100000:
                    raise BudgetExceeded('shim loop cap')
                if trig.flag:
                    # level-triggered wake-up pipe: select() returns at once
                    trig.clear()
                    return
                busy = bool(core.deferredFns) or bool(tm.tasks and tm.tasks[0][0] <= clock.now)
                if busy:
                    clock.now += timeout
                    return
                # the loop is idle: the outside world (harness script) acts
                while True:
                    if state['i'] >= len(ops):
                        run.ev('idle', True)
                        core.stop()
                        return
                    op = ops[state['i']]
                    if op[0] == 'advance':
                        if op[2] == 'stall':
                            run.ev('advance', op[1], 'stall')
                            clock.now += op[1]
                            state['i'] += 1
                            run.ev('idle_after_stall_pending',)
                            return
                        if state['wait_until'] is None:
                            run.ev('advance', op[1], 'exact')
                            state['wait_until'] = clock.now + op[1]
                        if clock.now >= state['wait_until']:
                            state['wait_until'] = None
                            state['i'] += 1
                            run.ev('idle', True)
                            continue
                        step = min(timeout, state['wait_until'] - clock.now)
                        clock.now += step
                        return
                    elif op[0] == 'jump':
                        run.ev('jump', op[1])
                        clock.now += op[1]
                        state['i'] += 1
                        return
                    else:
                        state['i'] += 1
                        run.api(op)
                        if trig.flag:
                            return

            socket_map = {}

        saved = core.asyncore
        core.asyncore = Shim
        try:
            core.run(spin=1.0, sigterm=None, sigusr1=None)
        except BudgetExceeded:
            self.budget = True
        finally:
            core.asyncore = saved
            core.running = False
            tm.trigger = None
            tm.tasks = []
            core.deferredFns = []


# ------------------------------------------------------------------ monitor (reference scheduler)

def slot_after(t, interval_ms, offset_ms):
    """first k*interval+offset strictly greater than t plus the scheduler's
    documented 1 microsecond arming jitter, exact arithmetic"""
    I = Fraction(interval_ms) / 1000
    O = Fraction(offset_ms or 0) / 1000
    T = Fraction(t) + Fraction(1, 1000000)
    k = (T - O) // I + 1
    s = k * I + O
    if s <= T:
        s += I
    return s, I


def monitor(log, driver, EPOCH=EPOCH):
    """Replay the log against the reference scheduler.  Returns violations."""
    out = []
    seen = set()

    def viol(clause, what, detail):
        if (clause, what) in seen:
            return
        seen.add((clause, what))
        out.append({'clause': clause, 'detail': '[driver %s] %s' % (driver, detail), 'sigkey': what,
                    'sig': {'kind': what, 'driver': driver}})

    pending = {}        # ('t',tid)|('f',fid)|('r',rid) -> (due, seq)
    rconf = {}          # rid -> (interval, offset)
    seq = itertools.count()
    deferred = []       # submitted fids in order, not yet called
    called = set()
    exact = True        # no stall / jump since the pending entries were armed
    jumped = False
    last_fire_due = None

    def check_fire(key, t, name):
        nonlocal last_fire_due
        if key not in pending:
            viol('C14.c' if key[0] != 'r' else 'C14.f', 'fired-not-pending',
                 '%s fired at t=%.6f although it is not installed (already fired, suspended or never installed)' % (name, t - EPOCH))
            return None
        due, sq = pending.pop(key)
        if t < due - 1e-9 and not jumped:
            viol('C14.b', 'fired-early', '%s fired at t=%.6f before its due time %.6f' % (name, t - EPOCH, float(due) - EPOCH))
        for k2, (d2, s2) in pending.items():
            if k2[0] == 'r':
                if d2 >= due - Fraction(TOL):
                    continue        # recurring slots are compared with the 2us tolerance
            if (d2, s2) < (due, sq) and d2 <= t:
                viol('C14.a', 'order', '%s (due %.6f, install #%d) fired before %r (due %.6f, install #%d)'
                     % (name, float(due) - EPOCH, sq, k2, float(d2) - EPOCH, s2))
                break
        return due

    for rec in log:
        k = rec[0]
        t = rec[-1]
        if k == 'install':
            pending[('t', rec[1])] = (rec[2], next(seq))       # re-install moves: one entry per task
        elif k == 'finstall':
            pending[('f', rec[1])] = (rec[2], next(seq))
        elif k == 'suspend':
            pending.pop(('t', rec[1]), None)
        elif k == 'rinstall':
            rconf[rec[1]] = (rec[2], rec[3])
            s, I = slot_after(t, rec[2], rec[3])
            pending[('r', rec[1])] = (s, next(seq), I)[:2]
            rconf[rec[1]] = (rec[2], rec[3], s, I, t)
        elif k == 'rsuspend':
            pending.pop(('r', rec[1]), None)
        elif k == 'fire':
            check_fire(('t', rec[1]), t, 'task %d' % rec[1])
        elif k == 'ffire':
            check_fire(('f', rec[1]), t, 'function task %d' % rec[1])
        elif k == 'rfire':
            rid = rec[1]
            key = ('r', rid)
            if key not in pending:
                viol('C14.f', 'recurring-fired-not-armed', 'recurring task %d fired at t=%.6f although suspended / not installed' % (rid, t - EPOCH))
            else:
                due, sq = pending[key]
                interval, offset, s, I, t_arm = rconf[rid]
                # accept the slot one interval later when arming happened within the code's own 1us jitter of a slot
                cands = [due]
                if due - (Fraction(t_arm) + Fraction(1, 1000000)) <= Fraction(TOL):
                    cands.append(due + I)
                if not jumped:
                    if all(Fraction(t) < c - Fraction(TOL) for c in cands):
                        viol('C14.f', 'recurring-early', 'recurring task %d (interval %sms offset %sms) armed at %.6f fired at %.6f, before its slot %.6f'
                             % (rid, interval, offset, t_arm - EPOCH, t - EPOCH, float(due) - EPOCH))
                    elif exact and all(abs(Fraction(t) - c) > Fraction(TOL) for c in cands):
                        viol('C14.f', 'recurring-off-slot', 'recurring task %d (interval %sms offset %sms) armed at %.6f fired at %.6f, expected slot %.6f (exact advance)'
                             % (rid, interval, offset, t_arm - EPOCH, t - EPOCH, float(due) - EPOCH))
                for k2, (d2, s2) in pending.items():
                    if k2 != key and d2 <= t and (d2, s2) < (min(cands), sq) and d2 < min(cands) - Fraction(TOL):
                        viol('C14.a', 'order', 'recurring task %d (slot %.6f) fired before %r (due %.6f)' % (rid, float(due) - EPOCH, k2, float(d2) - EPOCH))
                        break
                # re-armed by the scheduler after the callback returns (also when it raised)
                s2, I2 = slot_after(t, interval, offset)
                pending[key] = (s2, next(seq))
                rconf[rid] = (interval, offset, s2, I2, t)
        elif k == 'defer':
            deferred.append(rec[1])
        elif k == 'call':
            fid = rec[1]
            if fid in called:
                viol('C14.g', 'deferred-twice', 'deferred function #%d called twice' % fid)
            elif not deferred or deferred[0] != fid:
                if fid in deferred:
                    viol('C14.g', 'deferred-order', 'deferred function #%d called before #%d which was submitted earlier' % (fid, deferred[0]))
                    deferred.remove(fid)
                else:
                    viol('C14.g', 'deferred-unknown', 'deferred function #%d called but never submitted' % fid)
            else:
                deferred.pop(0)
            called.add(fid)
        elif k == 'advance':
            if rec[2] == 'stall':
                exact = False
        elif k == 'jump':
            exact = False
            if rec[1] < 0:
                jumped = True
        elif k == 'stuck':
            viol('C14.c', 'due-not-fired', 'the loop made no progress although a task is due (heap top %.6f, now %.6f)'
                 % ((rec[1] or 0) - EPOCH, t - EPOCH))
        elif k == 'idle':
            # quiescence: everything due must have fired, everything deferred must have been called
            for key, (due, sq) in sorted(pending.items(), key=lambda x: x[1]):
                if due <= Fraction(t) - Fraction(TOL if key[0] == 'r' else 0) and not jumped:
                    if key[0] == 'r':
                        viol('C14.f', 'recurring-missed', 'recurring task %d did not fire for its slot %.6f although the loop was idle at %.6f'
                             % (key[1], float(due) - EPOCH, t - EPOCH))
                    else:
                        viol('C14.c' if not _raised_before(log, rec) else 'C14.h', 'not-fired',
                             '%r with due time %.6f had not fired when the loop went idle at %.6f' % (key, float(due) - EPOCH, t - EPOCH))
                    pending.pop(key)
            if deferred:
                viol('C14.h' if _raised_before(log, rec) else 'C14.g', 'deferred-lost',
                     'deferred function(s) %r were never called although the loop went idle at %.6f' % (deferred[:4], t - EPOCH))
                del deferred[:]
            # after an idle point pending entries were (re)armed under whatever mode follows
            exact = True
    return out


def _raised_before(log, rec):
    return True


# ------------------------------------------------------------------ execution

def run_both(desc):
    a = Run(desc, 'run_once')
    a.run_stepped()
    b = Run(desc, 'run')
    b.run_real()
    return a, b


def execute_desc(desc):
    a, b = run_both(desc)
    v = []
    dig = hashlib.sha256()
    for r in (a, b):
        if r.budget:
            v.append({'clause': 'C14.c', 'detail': '[driver %s] loop did not terminate within the tick budget' % r.driver,
                      'sigkey': 'budget', 'sig': {'kind': 'budget', 'driver': r.driver}})
        else:
            v += monitor(r.log, r.driver, desc.get('epoch', EPOCH))
        dig.update(repr(r.log).encode())
    return {'violations': v, 'digest': dig.hexdigest(), 'events_tail': [list(map(str, e)) for e in a.log[-40:]],
            'logs': (a.log, b.log)}


def simplify(desc):
    if any(desc['bodies'].values()):
        d = copy.deepcopy(desc)
        d['bodies'] = {k: [] for k in d['bodies']}
        yield d
    if any(desc['rbodies'].values()):
        d = copy.deepcopy(desc)
        d['rbodies'] = {k: [] for k in d['rbodies']}
        yield d


# ------------------------------------------------------------------ generators

TIMES = [0.0, 0.1, 0.2, 0.3, 0.5, 1.0, 1.0, 1.5, 2.0, 1.0 / 3, 0.7, 2.5]
INTERVALS = [100, 300, 1000, 1000.0 / 3, 250, 700, 1500, 0.1 * 3 * 1000, 130.7]
OFFSETS = [0, 0, 100, 33.3, 250, 999, 0.1, 1000.0 / 7]
FT = {   # deferred function templates
    'plain': [], 'raise': [['raise']],
    'defer-plain': [['defer', 'plain']], 'defer-raise': [['defer', 'raise']],
    'defer2': [['defer', 'plain'], ['defer', 'defer-plain']],
    'defer-then-raise': [['defer', 'plain'], ['raise']],
    'install': [['install_after', 0, 0.1]], 'install0': [['install_after', 1, 0.0]],
}


def gen_desc(seed, idx):
    rng = rng_for(seed, 'C14', idx)
    ntasks = rng.randint(1, 6)
    nrec = rng.randint(0, 3)
    nops = rng.randint(3, 200) if rng.random() < 0.3 else rng.randint(3, 30)
    raise_p = rng.choice([0.0, 0.0, 0.15, 0.4])
    bodies = {}
    for tid in range(ntasks):
        b = []
        if rng.random() < 0.4:
            for _ in range(rng.randint(1, 2)):
                kind = rng.choice(['install_after', 'suspend', 'defer', 'install_at', 'fn_after'])
                if kind == 'install_after':
                    b.append(['install_after', rng.randrange(ntasks), rng.choice(TIMES)])
                elif kind == 'install_at':
                    b.append(['install_at', rng.randrange(ntasks), rng.choice(TIMES) * rng.randint(1, 4)])
                elif kind == 'suspend':
                    b.append(['suspend', rng.randrange(ntasks)])
                elif kind == 'fn_after':
                    b.append(['fn_after', rng.choice(TIMES), rng.random() < 0.5])
                else:
                    b.append(['defer', rng.choice(list(FT))])
        if rng.random() < raise_p:
            b.insert(rng.randint(0, len(b)), ['raise'])
        bodies[str(tid)] = b
    rbodies = {}
    for rid in range(nrec):
        b = []
        if rng.random() < 0.3:
            b.append(rng.choice([['defer', 'plain'], ['install_after', rng.randrange(ntasks), rng.choice(TIMES)], ['rsuspend', (rid + 1) % nrec] if nrec > 1 else ['defer', 'defer-plain']]))
        if rng.random() < raise_p:
            b.append(['raise'])
        rbodies[str(rid)] = b
    ops = []
    stall_p = rng.choice([0.0, 0.0, 0.2])
    jump_p = rng.choice([0.0, 0.0, 0.0, 0.1])
    tcur = 0.0
    for _ in range(nops):
        u = rng.random()
        if u < 0.22:
            ops.append(['install_at', rng.randrange(ntasks), round(tcur + rng.choice(TIMES) - rng.choice([0, 0, 0.3]), 6)])
        elif u < 0.40:
            ops.append(['install_after', rng.randrange(ntasks), rng.choice(TIMES)])
        elif u < 0.50:
            ops.append(['suspend', rng.randrange(ntasks)])
        elif u < 0.58:
            ops.append(['resume', rng.randrange(ntasks)])
        elif u < 0.66 and nrec:
            ops.append(['rinstall', rng.randrange(nrec), rng.choice(INTERVALS), rng.choice(OFFSETS)])
        elif u < 0.70 and nrec:
            ops.append(['rsuspend', rng.randrange(nrec)])
        elif u < 0.80:
            ops.append(['defer', rng.choice(list(FT)) if raise_p else rng.choice(['plain', 'defer-plain', 'defer2', 'install', 'install0'])])
        elif u < 0.84:
            ops.append(['fn_after', rng.choice(TIMES), rng.random() < 0.5])
        elif rng.random() < jump_p:
            ops.append(['jump', rng.choice([-0.5, -2.0, 0.7, 3.0])])
        else:
            d = rng.choice(TIMES + [0.05, 0.1, 0.1])
            mode = 'stall' if rng.random() < stall_p else 'exact'
            ops.append(['advance', d, mode])
            tcur += d
    ops.append(['advance', rng.choice([0.5, 2.0, 3.1]), 'exact'])
    return {'prop': 'C14', 'seed': H(seed, 'C14run', idx) & 0x7fffffff, 'ntasks': ntasks, 'nrec': nrec, 'bodies': bodies, 'rbodies': rbodies,
            'ftemplates': FT, 'ops': ops, 'epoch': rng.choice([EPOCH, EPOCH + 0.3, EPOCH + 123456.789, 1234567890.123])}


def enum_descs(ntasks, length, times=(0.0, 1.0)):
    """All op sequences of the given length over ntasks tasks with colliding times."""
    alpha = []
    for tid in range(ntasks):
        for t in times:
            alpha.append(['install_at', tid, t + 1.0])
            alpha.append(['install_after', tid, t])
        alpha.append(['suspend', tid])
        alpha.append(['resume', tid])
    alpha.append(['advance', 1.0, 'exact'])
    for seqops in itertools.product(range(len(alpha)), repeat=length):
        yield [alpha[i] for i in seqops]


def enum_unit_descs(unit):
    base = {'prop': 'C14', 'seed': 0, 'ntasks': unit['ntasks'], 'nrec': 0, 'bodies': {}, 'rbodies': {}, 'ftemplates': FT}
    n = 0
    for ops in enum_descs(unit['ntasks'], unit['length']):
        if n % unit['mod'] == unit['rem']:
            d = dict(base)
            d['ops'] = ops + [['advance', 3.0, 'exact']]
            yield d
        n += 1


def batch_descs():
    """every subset of raising members in deferred batches of up to 6, incl. functions that defer further work"""
    for n in range(1, 7):
        for mask in range(1 << n):
            for nested in (0, 1, 2):
                ops = []
                for i in range(n):
                    raising = bool(mask & (1 << i))
                    if nested == 0:
                        tpl = 'raise' if raising else 'plain'
                    elif nested == 1:
                        tpl = 'defer-then-raise' if raising else 'defer-plain'
                    else:
                        tpl = 'raise' if raising else ('defer2' if i % 2 else 'install0')
                    ops.append(['defer', tpl])
                ops.append(['advance', 0.5, 'exact'])
                yield {'prop': 'C14', 'seed': 0, 'ntasks': 2, 'nrec': 0, 'bodies': {}, 'rbodies': {}, 'ftemplates': FT, 'ops': ops}
    # raising tasks due in the same instant as healthy ones
    for n in range(2, 6):
        for mask in range(1 << n):
            bodies = {str(i): ([['raise']] if mask & (1 << i) else []) for i in range(n)}
            ops = [['install_at', i, 1.0] for i in range(n)] + [['advance', 2.0, 'exact']]
            yield {'prop': 'C14', 'seed': 0, 'ntasks': n, 'nrec': 0, 'bodies': bodies, 'rbodies': {}, 'ftemplates': FT, 'ops': ops}
            ops2 = [['install_at', i, 1.0] for i in range(n)] + [['advance', 2.0, 'stall']]
            yield {'prop': 'C14', 'seed': 0, 'ntasks': n, 'nrec': 0, 'bodies': bodies, 'rbodies': {}, 'ftemplates': FT, 'ops': ops2}


def rec_grid_descs():
    for interval in INTERVALS:
        for offset in OFFSETS:
            for epoch in (EPOCH, EPOCH + 0.3, 1234567890.123):
                ops = [['rinstall', 0, interval, offset]] + [['advance', interval * 7.3 / 1000.0, 'exact']] + \
                      [['advance', interval / 1000.0, 'exact']] * 5
                yield {'prop': 'C14', 'seed': 0, 'ntasks': 1, 'nrec': 1, 'bodies': {}, 'rbodies': {}, 'ftemplates': FT, 'ops': ops, 'epoch': epoch}


def _account(agg, desc):
    r = execute_desc(desc)
    agg.evals += 1
    a_log, b_log = r['logs']
    kinds = [e[0] for e in a_log]
    nfire = sum(1 for k in kinds if k in ('fire', 'rfire', 'ffire', 'call'))
    if nfire:
        agg.sigs.add(H(tuple((e[0], e[1]) if len(e) > 2 else e[0] for e in a_log)))
    for k in kinds:
        if k in ('fire', 'rfire', 'ffire', 'call', 'api_exc', 'jump'):
            agg.stat('probe.' + k)
    agg.stat('fault.raise', sum(1 for e in env.errlog.records if True) and 0)
    for op in desc['ops']:
        if op[0] == 'advance' and op[2] == 'stall':
            agg.stat('fault.stall')
        if op[0] == 'jump':
            agg.stat('fault.clock_jump')
    nraise = sum(1 for b in list(desc['bodies'].values()) + list(desc['rbodies'].values()) if ['raise'] in b)
    nraise += sum(1 for op in desc['ops'] if op[0] == 'defer' and 'raise' in op[1])
    if nraise:
        agg.stat('fault.raise_sites', nraise)
    agg.sim_seconds += (a_log[-1][-1] - desc.get('epoch', EPOCH)) if a_log else 0.0
    if len(agg.samples) < 2 and nfire and len(desc['ops']) < 25:
        agg.samples.append({'desc': desc, 'log_run_once': [list(map(str, e)) for e in a_log[:40]]})
    for v in r['violations']:
        agg.violation(v, desc)


def run_unit(unit):
    agg = Agg()
    k = unit['kind']
    if k == 'explore':
        for idx in range(unit['start'], unit['start'] + unit['count']):
            _account(agg, gen_desc(unit['seed'], idx))
    elif k == 'enum':
        for d in enum_unit_descs(unit):
            _account(agg, d)
        agg.cells += 1
    elif k == 'batches':
        for d in batch_descs():
            _account(agg, d)
        agg.cells += 1
    elif k == 'recgrid':
        for d in rec_grid_descs():
            _account(agg, d)
        agg.cells += 1
    return agg.result()


def units(tier, seed):
    us = [{'kind': 'batches', 'must': True}, {'kind': 'recgrid', 'must': True}]
    if tier == 'quick':
        for rem in range(16):
            us.append({'kind': 'enum', 'must': True, 'ntasks': 2, 'length': 3, 'mod': 16, 'rem': rem})
        n = 1500
    else:
        for rem in range(256):
            us.append({'kind': 'enum', 'must': True, 'ntasks': 2, 'length': 5, 'mod': 256, 'rem': rem})
        for rem in range(128):
            us.append({'kind': 'enum', 'must': True, 'ntasks': 3, 'length': 4, 'mod': 128, 'rem': rem})
        n = 12000
    for k in range(n):
        us.append({'kind': 'explore', 'seed': seed, 'start': k * 50, 'count': 50})
    return us


def selftest_descs(tier, seed):
    return [gen_desc(seed, 5000003 + i) for i in range(4)]


def evidence(tier, seed, total):
    return {
        'level': LEVEL,
        'coverage': {
            'rule': 'Every history is executed twice: by the real core.run_once() stepped under the virtual clock and by the real core.run() with asyncore.loop '
                    'shimmed and the wake-up pipe replaced by an in-memory flag. Enumerated: all op sequences of the stated length over {install at t, install after '
                    'delta, suspend, resume, advance} on 2-3 tasks with colliding times; every subset of raising members in deferred batches of 1-6 (three nesting '
                    'styles) and in groups of 2-5 tasks due in one instant (exact and stalled); the recurring interval x offset x epoch grid. Explored: seeded '
                    'histories of 3-200 ops over up to 6 one-shot tasks (OneShotTask / OneShotDeleteTask / FunctionTask / OneShotFunction), 3 recurring tasks and the '
                    'deferred queue, task bodies that install / suspend other tasks or defer functions, raising bodies, stalls and clock steps. A history is '
                    'non-trivial when at least one callback ran; distinct = distinct (event kind, id) sequences of the run_once driver (set of hashes).',
            'enumerated_cells': total['cells'],
            'components_real': ['task.TaskManager (install/suspend/resume/get_next_task/process_task)', 'task.OneShotTask/OneShotDeleteTask/RecurringTask/FunctionTask/OneShotFunction',
                                'core.run_once', 'core.run', 'core.deferred', 'core.stop'],
            'components_stub': ['wall clock (virtual)', 'asyncore.loop (shim advancing virtual time)', 'wake-up pipe (in-memory level-triggered flag)', 'signal handlers (None)'],
        },
        'assumptions': ['the monitor (reference scheduler) in bacsim/props/c14.py is correct', 'recurring slots are checked with a 2 microsecond tolerance (the code adds 1 microsecond of jitter itself)',
                        'never-early and slot clauses are not evaluated after a backward clock step',
                        'exhaustive enumeration is bounded (quick: length 3 over 2 tasks; thorough: length 5 over 2 tasks, length 4 over 3 tasks), shorter than the property\'s length 7'],
    }
