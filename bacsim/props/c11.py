"""
C11 -- concurrent transactions never cross: replies reach only the request
they answer.  Seeded exploration: 1..40 overlapping requests over 1..4 slow
servers, forced invoke-id collisions, counter wrap with pinned long-lived
transactions, drops/dups/delays, IOCB cancel, and a promiscuous adversary
(foreign / wrong-id / replayed frames) with a differential baseline.
"""

import copy

from .. import txn, txngen, wire
from ..driver import Agg
from ..stacks import TOK_BASE, payload
from ..txngen import rng_for, stack_cfg
from ..world import H
from . import c04

ID = 'C11'
LEVEL = 'exploration'
BUDGET = {'quick': 55, 'thorough': 780}
SHRINK_LISTS = [('faults', 'list'), ('timed',), ('ops',)]


def outcome_table(h):
    tab = {}
    for r in h.reqs:
        outs = txn.outcomes_of(h, r)
        tab[r.tok] = [(o[2], repr(o[3]), len(o[4]) if o[4] is not None else -1) for o in outs]
    inds = {}
    for name in sorted(h.stacks):
        for st in [h.stacks[name]] + [z for z in h.zombies if z.name == name]:
            for (seq, t, peer, inv, tok, data) in st.app.inds:
                if tok < txn.ADV_TOK:
                    inds[tok] = inds.get(tok, 0) + 1
    return tab, inds


def check(h, baseline=None):
    out = []
    w = h.w
    if h.result == 'budget':
        out.append({'clause': 'C11.a', 'detail': 'run exceeded its frame/tick budget (%s)' % w.budget_hit, 'sigkey': 'budget', 'sig': {'kind': 'budget'}})
        return out
    reported = set()

    def viol(clause, what, detail, **sig):
        if (clause, what) in reported:
            return
        reported.add((clause, what))
        s = {'kind': what}
        s.update(sig)
        out.append({'clause': clause, 'detail': detail, 'sigkey': what, 'sig': s})

    # ---- C11.a: no two live client transactions of one stack share (peer, invoke)
    # A reassembled answer that cannot be decoded is handed to the application as an ANONYMOUS error (no source, no invoke
    # id): the transaction it ends is the one whose frame the client was delivered immediately before.
    anon_end = {}
    for name in sorted(h.stacks):
        for st in [h.stacks[name]] + [z for z in h.zombies if z.name == name]:
            for (seq, t, peer, inv, kind, detail, data) in st.app.confs:
                if peer is None:
                    last = None
                    for f in w.rx:
                        if f['node'] == name and f['seq'] < seq:
                            last = f
                        elif f['seq'] >= seq:
                            break
                    if last is not None:
                        n_, a_ = txn.decode_lan_frame(last['octets'])
                        if a_ is not None and a_.get('invoke') is not None:
                            anon_end.setdefault((name, last['src'], a_['invoke']), []).append(seq)
                            w.probe('anonymous_error_ends_transaction')
    spans = {}
    for r in h.reqs:
        if r.act0 is None or r.invoke is None:
            continue
        if r.exc is not None and not txn.outcomes_of(h, r):
            continue            # refused at submit: never live
        outs = txn.outcomes_of(h, r)
        end = outs[0][0] if outs else 1 << 60
        if not outs:
            later = [q for q in anon_end.get((r.c, r.peer, r.invoke), []) if q > r.act0]
            if later:
                end = later[0]
        if r.mode == 'iocb' and r.cancel_seq is not None:
            # a cancelled IOCB's transaction lives on inside the stack; its id
            # stays reserved until the stack itself finishes (not observable at
            # the API) -- treat the span as ending at the cancel
            end = min(end, r.cancel_seq)
        spans.setdefault((r.c, r.peer, r.invoke), []).append((r.act0, end, r.tok))
    for key, lst in spans.items():
        lst.sort()
        for i in range(1, len(lst)):
            if lst[i][0] < lst[i - 1][1]:
                viol('C11.a', 'live-id-shared', 'client %s: requests tok=%x and tok=%x to peer %s were live at the same time with invoke id %d'
                     % (key[0], lst[i - 1][2], lst[i][2], key[1], key[2]))

    # ---- C11.b / C11.e: every ack carries the token of the request it is attributed to
    triples = {}
    for r in h.reqs:
        if r.invoke is not None and r.exc is None:
            triples.setdefault((r.c, r.peer, r.invoke), []).append(r)
    ambiguous_clients = set()
    addr_of = {name: str(st.address) for name, st in h.stacks.items()}
    resp_by = {}
    for e in w.events:
        if e[2] == 'resp':      # (seq, t, 'resp', server, peer, invoke, tok, rs_len)
            resp_by.setdefault((e[3], str(e[4]), e[5]), []).append(e)
    stale_rx = {}
    for f in w.rx:
        if f.get('wseq') is None:
            continue
        n, a = txn.decode_lan_frame(f['octets'])
        if a is not None and a.get('invoke') is not None and a['type'] in (wire.T_CACK, wire.T_SACK, wire.T_ERROR, wire.T_REJECT, wire.T_ABORT, wire.T_SEGACK):
            stale_rx.setdefault((f['node'], f['src']), []).append({'seq': f['seq'], 'wseq': f['wseq'], 'inv': a['invoke']})
    for r in h.reqs:
        # an earlier use of the same (peer, invoke id) that the client gave up on locally (abort / cancel /
        # no outcome) may still be in progress at the server: its frames are indistinguishable from this
        # request's on the wire -- legal BACnet ambiguity, not a crossing
        ambiguous = False
        for q in triples.get((r.c, r.peer, r.invoke), []):
            if q is not r and q.seq0 < r.seq0:
                qo = txn.outcomes_of(h, q)
                if not qo or qo[0][2] in ('abort', 'exc') or q.cancel_seq is not None:
                    ambiguous = True
        if not ambiguous and r.act0 is not None and r.invoke is not None and len(triples.get((r.c, r.peer, r.invoke), [])) > 1:
            # a late NETWORK copy of a frame of an earlier exchange with the same (peer, invoke id) -- on the wire before
            # this request was even activated -- delivered while this one is live: same indistinguishability
            ro = txn.outcomes_of(h, r)
            rend = ro[0][0] if ro else 1 << 60
            for f in stale_rx.get((r.c, r.peer), ()):
                if f['wseq'] < r.act0 <= f['seq'] <= rend and f['inv'] == r.invoke:
                    ambiguous = True
                    w.probe('same_id_stale_frame_ambiguous')
                    break
        if not ambiguous and r.act0 is not None and r.invoke is not None:
            # the serving APPLICATION handed the stack an answer for this (peer, invoke id) that belongs to another request
            # (a slow application answering an indication whose transaction the application timeout had closed long ago):
            # an answer carries nothing but (peer, id), the stack cannot know which request the application meant
            ro = txn.outcomes_of(h, r)
            rend = ro[0][0] if ro else 1 << 60
            caddr = addr_of.get(r.c)
            for e in resp_by.get((r.s, caddr, r.invoke), ()):
                if r.act0 <= e[0] <= rend and e[6] != r.tok:
                    ambiguous = True
                    w.probe('stale_application_answer_ambiguous')
                    break
        if ambiguous:
            w.probe('same_id_reuse_ambiguous')
            ambiguous_clients.add(r.c)
            continue
        for o in txn.outcomes_of(h, r):
            if o[2] in ('none', 'both'):
                # the I/O control block was completed by something that is no reply at all (or by two things at once)
                viol('C11.b', 'completed-without-reply', 'request tok=%x (%s, peer %s, invoke %s) was completed at t=%.4f with %s'
                     % (r.tok, r.mode, r.peer, r.invoke, o[1], 'neither a response nor an error' if o[2] == 'none' else 'a response AND an error'), mode=r.mode)
            if o[2] == 'ack':
                q = h.by_tok.get(o[3])
                if o[3] != r.tok and q is not None and (q.c, q.peer, q.invoke) == (r.c, r.peer, r.invoke):
                    # late reply to an earlier use of the same (peer, invoke id): indistinguishable
                    # on the wire, legal BACnet -- not a crossing
                    w.probe('same_id_late_reply')
                elif o[3] != r.tok:
                    viol('C11.b', 'wrong-token', 'request tok=%x (%s, peer %s, invoke %s) was completed with the reply to tok=%x'
                         % (r.tok, r.mode, r.peer, r.invoke, o[3]), mode=r.mode, cancelled_before=any(q.cancel_seq is not None for q in h.reqs))
                elif o[4] != payload(w.seed, r.tok, 'rs', r.rs):
                    viol('C11.b', 'wrong-payload', 'request tok=%x completed with a payload that is not its own' % r.tok, mode=r.mode)

    # ---- C11.b (I/O control blocks): whatever completes a control block -- reply, error, reject, abort, also the stack's own
    # no-response abort -- carries the invoke id of the request the block holds
    for r in h.reqs:
        if r.mode != 'iocb' or r.invoke is None or r.c not in h.stacks:
            continue
        for st in [h.stacks[r.c]] + [z for z in h.zombies if z.name == r.c]:
            got = getattr(st.app, 'iocb_apdu_invoke', {}).get(r.tok)
            if got is not None and got != r.invoke:
                viol('C11.b', 'iocb-completed-by-other-id', 'request tok=%x (iocb, peer %s, invoke %d) was completed by a PDU carrying invoke id %d'
                     % (r.tok, r.peer, r.invoke, got), cancelled_before=any(q.cancel_seq is not None for q in h.reqs))

    # ---- C11.c: stray confirmations (not attributable to any request)
    attributed = set()
    for r in h.reqs:
        for o in txn.outcomes_of(h, r):
            attributed.add(o[0])
    for name in sorted(h.stacks):
        for st in [h.stacks[name]] + [z for z in h.zombies if z.name == name]:
            for (seq, t, peer, inv, kind, detail, data) in st.app.confs:
                if seq not in attributed and peer is None and name in ambiguous_clients:
                    # two responses with the same (peer, invoke id) interleaved (legal re-use ambiguity): the reassembled
                    # octets fail to decode and the stack hands up its anonymous decoding-error substitute
                    w.probe('anonymous_error_under_ambiguity')
                    continue
                if seq not in attributed:
                    viol('C11.c', 'stray-confirmation', 'client %s was handed a %s (peer %s, invoke %s) at seq %d that answers no live request'
                         % (name, kind, peer, inv, seq), kind=kind)
    # ---- C11.c differential: same run without the adversary has the same fates
    if baseline is not None:
        tab, inds = outcome_table(h)
        btab, binds = outcome_table(baseline)
        for tok in sorted(tab):
            if tab[tok] != btab.get(tok):
                viol('C11.c', 'adversary-changed-fate', 'request tok=%x: outcomes %r with adversary frames, %r without them'
                     % (tok, tab[tok], btab.get(tok)), with_adv=[x[0] for x in tab[tok]], without=[x[0] for x in btab.get(tok, [])])
        if inds != binds:
            viol('C11.c', 'adversary-changed-indications', 'server indications per token differ with/without adversary: %r vs %r'
                 % (sorted(set(inds.items()) - set(binds.items()))[:4], sorted(set(binds.items()) - set(inds.items()))[:4]))

    # ---- C11.c (wire): a node acknowledges only segments it was delivered, in the role it received them in: a segment-ack
    # with server=1 answers a segmented REQUEST from that peer with that id, server=0 a segmented RESPONSE
    got_seg = {}
    evs = [(f['seq'], 1, f) for f in w.rx] + [(f['seq'], 0, f) for f in w.tx]
    evs.sort(key=lambda x: x[0])
    for seq_, isrx, f in evs:
        n_, a_ = txn.decode_lan_frame(f['octets'])
        if a_ is None:
            continue
        if isrx:
            if a_['type'] in (wire.T_CONF, wire.T_CACK) and a_.get('seg'):
                got_seg[(f['node'], f['src'], a_['invoke'], a_['type'])] = seq_
        elif a_['type'] == wire.T_SEGACK and f['node'] in h.stacks:
            want_type = wire.T_CONF if a_['srv'] else wire.T_CACK
            if (f['node'], f['dst'], a_['invoke'], want_type) not in got_seg:
                other = (f['node'], f['dst'], a_['invoke'], wire.T_CACK if a_['srv'] else wire.T_CONF) in got_seg
                viol('C11.c', 'segack-wrong-role', '%s emitted a segment-ack (server=%d, %s, invoke %d) to %s although it was never delivered a segmented %s with that id from that peer%s'
                     % (f['node'], a_['srv'], 'negative' if a_['nak'] else 'positive', a_['invoke'], f['dst'], 'request' if a_['srv'] else 'response',
                        ' (it WAS delivered a segmented %s: role flag confused)' % ('response' if a_['srv'] else 'request') if other else ''), confused=other)

    # ---- C11.d: while a server transaction is open the application is indicated at most once
    # an Abort from the requester delivered to the server closes the server transaction too
    aborts_rx = {}
    for f in w.rx:
        n_, a_ = txn.decode_lan_frame(f['octets'])
        if a_ is not None and a_['type'] == wire.T_ABORT and not a_['srv']:
            aborts_rx.setdefault((f['node'], f['src'], a_['invoke']), []).append(f['seq'])
    resp_at = {}
    for e in w.events:
        if e[2] == 'resp':
            resp_at.setdefault((e[3], e[4], e[5]), []).append(e[0])
    for name in sorted(h.stacks):
        cfg = h.cfgs.get(name, {})
        app_t = cfg.get('app_timeout', 3000) / 1000.0
        for st in [h.stacks[name]] + [z for z in h.zombies if z.name == name]:
            last = {}
            for (seq, t, peer, inv, tok, data) in st.app.inds:
                k = (peer, inv)
                if k in last:
                    seq1, t1, tok1 = last[k]
                    answered = any(seq1 < x < seq for x in resp_at.get((name, peer, inv), [])) or \
                        any(seq1 < x < seq for x in aborts_rx.get((name, peer, inv), []))
                    if not answered and t < t1 + app_t - 1e-5:
                        viol('C11.d', 'duplicate-indication', 'server %s was indicated again for (peer %s, invoke %d) at t=%.4f while the transaction opened at t=%.4f was still being processed (no response yet, application timeout %.1fs)'
                             % (name, peer, inv, t, t1, app_t))
                last[k] = (seq, t, tok)
    return out


def execute_full(desc):
    h = txn.execute(desc)
    base = None
    if desc.get('adversary'):
        d2 = copy.deepcopy(desc)
        d2.pop('adversary')
        base = txn.execute(d2)
        # executing the baseline second would leave ITS world as the last one;
        # digest comes from the adversarial run recorded in h
    return h, base


def execute_desc(desc):
    h, base = execute_full(desc)
    v = check(h, base)
    return {'violations': v, 'digest': h.w.digest(), 'events_tail': [list(map(str, e)) for e in h.w.events[-40:]]}


def debug_execute(desc):
    return txn.execute(desc)


freeze = c04.freeze
simplify = c04.simplify


def gen_desc(seed, idx):
    rng = rng_for(seed, 'C11', idx)
    shape = rng.choice(['overlap', 'overlap', 'overlap', 'twoway', 'twoway', 'twoclients', 'twoclients', 'iocb-cancel', 'iocb-cancel', 'wrap'])
    tout = rng.choice([1000, 3000])
    tseg = rng.choice([500, 1000])
    retries = rng.randint(0, 3)
    nserv = rng.randint(1, 4)
    maxapdu = rng.choice([50, 128, 480, 1024])
    stacks = [stack_cfg('c0', 1, 'client', maxApdu=maxapdu, win=rng.randint(1, 4), retries=retries, tout=tout, tseg=tseg,
                        mode='iocb' if shape == 'iocb-cancel' else 'direct')]
    if shape == 'twoclients':
        stacks.append(stack_cfg('c1', 2, 'client', maxApdu=maxapdu, win=rng.randint(1, 4), retries=retries, tout=tout, tseg=tseg,
                                mode=rng.choice(['direct', 'iocb'])))
    app_t = rng.choice([3000, 3000, 30000])
    for i in range(nserv):
        stacks.append(stack_cfg('s%d' % i, 10 + i, 'server', maxApdu=maxapdu, win=rng.randint(1, 4), retries=rng.randint(0, 3),
                                tout=tout, tseg=tseg, app_timeout=app_t))
    clients = [s['name'] for s in stacks if s['role'] == 'client']
    ops = []
    tok = 0
    slowset = [0.0, 0.0, 0.05, 0.5, tout / 1000.0 * 0.9, tout / 1000.0 + 0.001, 2.5, app_t / 1000.0 - 0.001, app_t / 1000.0 + 0.5]
    small = [0, 3, 10, 40]
    big = [maxapdu * 2, maxapdu * 3 + 5]
    if shape == 'wrap':
        # pinned long-lived transactions, then > 256 quick ones: the allocator must skip live ids
        for i in range(rng.randint(1, 4)):
            tok += 1
            ops.append({'t': 0.0, 'op': 'req', 'c': 'c0', 's': 's0', 'tok': TOK_BASE + tok, 'rq': 3, 'rs': 3,
                        'slow': min(app_t / 1000.0 - 0.5, rng.choice([1.5, 2.4, 20.0]))})
        nquick = rng.randint(250, 300)
        for i in range(nquick):
            tok += 1
            ops.append({'t': 0.001 + i * rng.choice([0.0, 0.001]), 'op': 'req', 'c': 'c0', 's': 's0', 'tok': TOK_BASE + tok,
                        'rq': rng.choice(small), 'rs': rng.choice(small)})
    else:
        n = rng.randint(1, 40) if rng.random() < 0.6 else rng.randint(1, 6)
        t = 0.0
        used_forced = []
        for i in range(n):
            tok += 1
            t += rng.choice([0.0, 0.0, 0.0, 0.001, 0.2, tout / 1000.0])
            op = {'t': round(t, 4), 'op': 'req', 'c': rng.choice(clients), 's': 's%d' % rng.randrange(nserv), 'tok': TOK_BASE + tok,
                  'rq': rng.choice(small + small + big), 'rs': rng.choice(small + small + big),
                  'slow': rng.choice(slowset)}
            cmode = next(s for s in stacks if s['name'] == op['c']).get('mode', 'direct')
            if (cmode == 'direct' and rng.random() < 0.25) or (cmode == 'iocb' and rng.random() < 0.3):
                # application-chosen invoke id, collisions forced
                if used_forced and rng.random() < 0.6:
                    op['invoke'] = rng.choice(used_forced)
                else:
                    op['invoke'] = rng.choice([0, 1, 2, 5, 200, 255, rng.randrange(256)])
                used_forced.append(op['invoke'])
            ops.append(op)
            if rng.random() < 0.08:
                # unconfirmed traffic from the requester to the peer that still owes the answer
                ops.append({'t': round(t + rng.choice([0.0, 0.0005, 0.1, 0.5]), 4), 'op': 'unconf', 'c': op['c'], 's': op['s']})
            if cmode == 'iocb' and rng.random() < (0.4 if shape == 'iocb-cancel' else 0.1):
                ops.append({'t': round(t + rng.choice([0.0, 0.001, 0.1, tout / 1000.0]), 4), 'op': 'cancel', 'tok': op['tok']})
    if shape == 'twoway':
        # both ends are freshly started devices: their own requests to each other use the same invoke ids at the same time,
        # in opposite directions; big payloads so that both directions are segmented
        extra = []
        for op in list(ops):
            if op['op'] == 'req' and rng.random() < 0.7:
                tok += 1
                extra.append({'t': round(op['t'] + rng.choice([0.0, 0.0, 0.001, 0.05]), 4), 'op': 'req', 'c': op['s'], 's': op['c'], 'tok': TOK_BASE + 5000 + tok,
                              'rq': rng.choice(small + big + big), 'rs': rng.choice(small + big + big), 'slow': rng.choice([0.0, 0.0, 0.05])})
                op['rq'] = rng.choice([op['rq']] + big)
                op['rs'] = rng.choice([op['rs']] + big + big)
        ops += extra
    ops.sort(key=lambda o: o['t'])
    faults = txngen.fault_profile(rng, tout / 1000.0, tseg / 1000.0, allow_none=0.35)
    d = {'prop': 'C11', 'scenario': 'txn', 'seed': H(seed, 'C11run', idx) & 0x7fffffff, 'stacks': stacks,
         'net': {'latency': rng.choice([0.0, 0.0, 0.001, 0.03]), 'jitter': rng.choice([0.0, 0.0, 0.005])},
         'ops': ops, 'faults': faults, 'timed': [], 'caps': {'frames': 60000, 'ticks': 900000}}
    if rng.random() < 0.6:
        kinds = ['foreign-reply', 'wrong-id-reply', 'late-replay', 'foreign-to-server', 'foreign-request']
        d['adversary'] = {'rate': rng.choice([0.05, 0.2, 0.5]), 'salt': rng.randrange(1 << 30),
                          'kinds': rng.sample(kinds, rng.randint(1, len(kinds))),
                          'delays': [0.0, 0.0005, 0.2, tout / 1000.0], 'replay_delays': [0.5, tout / 1000.0 * 4, 40.0]}
    return d


def run_unit(unit):
    agg = Agg()
    for idx in range(unit['start'], unit['start'] + unit['count']):
        d = gen_desc(unit['seed'], idx)
        h, base = execute_full(d)
        viols = check(h, base)
        agg.evals += 1
        agg.sim_seconds += h.w.sim_seconds
        for k, v in h.w.plan.counts.items():
            agg.stat('fault.' + k, v)
        for k, v in h.w.probes.items():
            if k.startswith('adv.'):
                agg.stat('fault.' + k, v)
            else:
                agg.stat('probe.' + k, v)
        for e in h.errors:
            agg.stat('looperr.%s:%s:%s' % (e[1], e[2], e[3]))
        nlive_max = 0
        for r in h.reqs:
            if r.exc is not None:
                agg.stat('probe.submit_refused')
            for o in txn.outcomes_of(h, r):
                agg.stat('outcome.' + str(o[2]))
        ids = [r.invoke for r in h.reqs if r.invoke is not None]
        if len(ids) > 256:
            agg.stat('probe.counter_wrapped')
        if h.w.plan.fired or any(k.startswith('adv.') for k in h.w.probes) or len(h.reqs) > 1:
            agg.sigs.add(txngen.run_signature(h))
        if len(agg.samples) < 2 and len(d['ops']) < 12:
            agg.samples.append({'desc': d, 'trace': txngen.trace_sample(h, 30)})
        for v in viols:
            agg.violation(v, d)
    return agg.result()


def units(tier, seed):
    n = 5000 if tier == 'thorough' else 320
    return [{'kind': 'explore', 'seed': seed, 'start': k * 25, 'count': 25} for k in range(n)]


def selftest_descs(tier, seed):
    return [gen_desc(seed, 4000003 + i) for i in range(4)]


def evidence(tier, seed, total):
    return {
        'level': LEVEL,
        'coverage': {
            'rule': 'Runs generated from H(VERIF_SEED, index): shapes overlap (1-40 overlapping requests over 1-4 slow servers, 25% with application-chosen '
                    'invoke ids forced to collide), wrap (1-4 pinned long-lived transactions then 250-300 quick requests so the 8-bit allocator wraps '
                    'and must skip live ids), twoclients (equal ids from different peers), iocb-cancel (IOCB abort immediately followed by the next IOCB). '
                    'Hashed drop/dup/delay plans (65% of runs) and, in 60% of runs, a promiscuous adversary injecting replies/acks/aborts/segment-acks with a '
                    'live id from a foreign address, wrong ids from the right address, genuine replies replayed after completion, foreign aborts/segment-acks '
                    'and same-id requests toward the server; every adversarial run is executed a second time without the adversary as a differential baseline. '
                    'Non-trivial = a fault or adversary frame fired or more than one request; distinct = distinct abstract event sequences (set of hashes).',
            'components_real': c04.evidence(tier, seed, total)['coverage']['components_real'],
            'components_stub': ['wall clock (virtual)', 'LAN fabric', 'adversary station (harness code, frames built by bacsim/wire.py)'],
        },
        'assumptions': ['harness attribution of confirmations to requests by (peer, invoke id, submit order) is correct',
                        'adversary frames bypass the fault plan so the adversary-free run is an exact baseline',
                        're-execution of a request by the server after its transaction closed (late duplicate, retry after application timeout) is legal and not flagged'],
    }
