"""
bacsim.driver -- parallel batch driver, known-finding matching, minimiser,
replay files, evidence writer, exit codes.

Exit codes: 0 held on everything explored (KNOWN-FINDING lines allowed),
            1 violation (prints ``VIOLATION property=<id> replay=<path>``),
            2 harness error (never disguised as either).
"""

import os
import sys
import json
import time
import copy
import hashlib
import traceback
import faulthandler
import subprocess
import multiprocessing
from concurrent.futures import ProcessPoolExecutor, as_completed
from concurrent.futures.process import BrokenProcessPool

VERIF = os.path.dirname(os.path.dirname(os.path.abspath(__file__)))
KNOWN_FILE = os.path.join(VERIF, 'known_findings.json')
EVIDENCE_DIR = os.environ.get('VERIF_EVIDENCE_DIR') or os.path.join(VERIF, 'evidence')
REPLAY_DIR = os.environ.get('VERIF_REPLAY_DIR') or os.path.join(VERIF, 'replays')

UNIT_WATCHDOG_S = 600


def _now():
    return time.monotonic()


# ----------------------------------------------------------------------------
# worker side

_MOD = None


def _worker_init(modname):
    global _MOD
    import importlib
    _MOD = importlib.import_module(modname)
    faulthandler.enable()


def _worker_run(unit):
    faulthandler.dump_traceback_later(UNIT_WATCHDOG_S, exit=True)
    try:
        t0 = _now()
        res = _MOD.run_unit(unit)
        res['wall'] = _now() - t0
        return res
    finally:
        faulthandler.cancel_dump_traceback_later()


def _worker_exec(desc):
    faulthandler.dump_traceback_later(UNIT_WATCHDOG_S, exit=True)
    try:
        return _MOD.execute_desc(desc)
    finally:
        faulthandler.cancel_dump_traceback_later()


# ----------------------------------------------------------------------------
# helpers usable by property modules

class Agg:
    """Aggregated result of a unit of work."""

    def __init__(self):
        self.evals = 0
        self.sigs = set()
        self.stats = {}
        self.violations = []
        self.nviol = 0
        self.samples = []
        self.sim_seconds = 0.0
        self.discarded = 0
        self.cells = 0

    def stat(self, k, n=1):
        self.stats[k] = self.stats.get(k, 0) + n

    def add_stats(self, d, prefix=''):
        for k, v in d.items():
            self.stats[prefix + k] = self.stats.get(prefix + k, 0) + v

    def violation(self, v, desc):
        self.nviol += 1
        if len(self.violations) < 6:
            v = dict(v)
            v['desc'] = desc
            self.violations.append(v)

    def result(self):
        return {'evals': self.evals, 'sigs': self.sigs, 'stats': self.stats,
                'violations': self.violations, 'nviol': self.nviol, 'samples': self.samples,
                'sim_seconds': self.sim_seconds, 'discarded': self.discarded, 'cells': self.cells}


def sig_hash(obj):
    return int.from_bytes(hashlib.blake2b(repr(obj).encode(), digest_size=8).digest(), 'big')


# ----------------------------------------------------------------------------
# known findings

def load_known():
    if not os.path.exists(KNOWN_FILE):
        return {'findings': [], 'fixed': []}
    with open(KNOWN_FILE) as f:
        return json.load(f)


def match_known(known, prop, v):
    sig = v.get('sig', {})
    for kf in known.get('findings', []):
        if kf.get('property') != prop:
            continue
        if kf.get('clause') != v.get('clause'):
            continue
        ok = True
        for k, want in kf.get('match', {}).items():
            got = sig.get(k)
            if isinstance(want, list):
                if got not in want:
                    ok = False
                    break
            elif got != want:
                ok = False
                break
        if ok:
            return kf
    return None


# ----------------------------------------------------------------------------
# minimiser (delta debugging over the lists of a run description)

def _get_path(d, path):
    for p in path:
        d = d[p]
    return d


def _set_path(d, path, val):
    for p in path[:-1]:
        d = d[p]
    d[path[-1]] = val


def ddmin_list(desc, path, fails, budget):
    """Classic ddmin over desc[path] (a list).  fails(desc) -> bool."""
    items = list(_get_path(desc, path))
    n = 2
    while len(items) >= 1 and budget['left'] > 0 and _now() < budget['deadline']:
        if len(items) == 1:
            cand = copy.deepcopy(desc)
            _set_path(cand, path, [])
            budget['left'] -= 1
            if fails(cand):
                items = []
            break
        chunk = max(1, len(items) // n)
        reduced = False
        i = 0
        while i < len(items):
            if budget['left'] <= 0 or _now() >= budget['deadline']:
                break
            trial = items[:i] + items[i + chunk:]
            cand = copy.deepcopy(desc)
            _set_path(cand, path, trial)
            budget['left'] -= 1
            if fails(cand):
                items = trial
                n = max(n - 1, 2)
                reduced = True
            else:
                i += chunk
        if not reduced:
            if chunk == 1:
                break
            n = min(len(items), n * 2)
    out = copy.deepcopy(desc)
    _set_path(out, path, items)
    return out


def minimise(mod, desc, clause, sigkey, max_evals=400, max_wall=90.0):
    budget = {'left': max_evals, 'deadline': _now() + max_wall}

    def fails(d):
        try:
            r = mod.execute_desc(d)
        except Exception:
            return False
        for v in r['violations']:
            if v['clause'] == clause and (sigkey is None or v.get('sigkey') == sigkey):
                return True
        return False

    cur = desc
    # freeze hashed fault plans into explicit ones first
    freeze = getattr(mod, 'freeze', None)
    if freeze is not None:
        try:
            cand = freeze(cur)
            if cand is not None:
                budget['left'] -= 1
                if fails(cand):
                    cur = cand
        except Exception:
            pass
    for path in getattr(mod, 'SHRINK_LISTS', []):
        try:
            lst = _get_path(cur, path)
        except (KeyError, TypeError, IndexError):
            continue
        if isinstance(lst, list) and lst:
            cur = ddmin_list(cur, path, fails, budget)
    simplify = getattr(mod, 'simplify', None)
    if simplify is not None:
        progress = True
        while progress and budget['left'] > 0 and _now() < budget['deadline']:
            progress = False
            for cand in simplify(cur):
                if budget['left'] <= 0 or _now() >= budget['deadline']:
                    break
                budget['left'] -= 1
                if fails(cand):
                    cur = cand
                    progress = True
                    break
    return cur, max_evals - budget['left']


def jsonable(o):
    if isinstance(o, dict):
        return {str(k): jsonable(v) for k, v in o.items()}
    if isinstance(o, (list, tuple)):
        return [jsonable(x) for x in o]
    if isinstance(o, (set, frozenset)):
        return sorted(jsonable(x) for x in o)
    if isinstance(o, bytes):
        return o.hex()
    if isinstance(o, (str, int, float, bool)) or o is None:
        return o
    return repr(o)


def write_replay(mod, desc, v, digest, events_tail, n):
    os.makedirs(REPLAY_DIR, exist_ok=True)
    path = os.path.join(REPLAY_DIR, '%s-%s-%d.json' % (mod.ID, desc.get('seed', 0), n))
    with open(path, 'w') as f:
        json.dump(jsonable({'property': mod.ID, 'clause': v['clause'], 'detail': v.get('detail'),
                            'sig': v.get('sig', {}), 'sigkey': v.get('sigkey'),
                            'desc': desc, 'digest': digest, 'events_tail': events_tail}), f, indent=1)
    return path


# ----------------------------------------------------------------------------
# determinism self-test (miniature; the full one is tools/determinism.py)

def fresh_digests(modname, descs, hashseed='1'):
    """Execute descs in a fresh interpreter under another PYTHONHASHSEED and
    return their digests."""
    code = ("import sys, json, importlib; sys.path.insert(0, %r); m = importlib.import_module(%r); "
            "descs = json.load(sys.stdin); "
            "print(json.dumps([m.execute_desc(d)['digest'] for d in reversed(descs)]))" % (VERIF, modname))
    envv = dict(os.environ)
    envv['PYTHONHASHSEED'] = hashseed
    p = subprocess.run([sys.executable, '-B', '-c', code], input=json.dumps(descs), capture_output=True,
                       text=True, env=envv, timeout=300)
    if p.returncode != 0:
        raise RuntimeError('fresh interpreter failed: ' + p.stderr[-2000:])
    return list(reversed(json.loads(p.stdout.strip().splitlines()[-1])))


def determinism_selftest(mod, modname, tier, seed):
    descs = mod.selftest_descs(tier, seed)
    a = [mod.execute_desc(d)['digest'] for d in descs]
    b = [mod.execute_desc(d)['digest'] for d in reversed(descs)]
    b.reverse()
    c = fresh_digests(modname, jsonable(descs))
    ok = (a == b == c)
    return {'runs': len(descs), 'same_process_twice': a == b, 'fresh_interpreter_other_hashseed': a == c, 'ok': ok}


# ----------------------------------------------------------------------------
# main entry

def run_check(modname, tier, seed, replay=None, workers=None):
    import importlib
    t_start = _now()
    mod = importlib.import_module(modname)
    prop = mod.ID

    if replay:
        return run_replay(mod, replay)

    budget_s = float(os.environ.get('VERIF_BUDGET_S', mod.BUDGET[tier]))
    workers = workers or int(os.environ.get('VERIF_WORKERS', min(16, os.cpu_count() or 1)))
    known = load_known()

    # 1. determinism miniature
    try:
        det = determinism_selftest(mod, modname, tier, seed)
    except Exception as e:
        print('HARNESS-ERROR determinism self-test crashed: %r' % (e,))
        traceback.print_exc()
        return 2
    nondet = not det['ok']
    if nondet:
        # the harness proved itself deterministic on the unchanged tree (tools/determinism.py); if the SAME harness now
        # diverges, the tree under test has become order dependent (e.g. iterates a set of objects ordered by id()).
        # Violations found in the runs that were executed are still real; but such a tree can never be reported as holding.
        print('NONDETERMINISM-WARNING the tree under test does not replay identically: %r' % (det,))

    # 2. the batch
    units = mod.units(tier, seed)
    must = [u for u in units if u.get('must')]
    opt = [u for u in units if not u.get('must')]
    total = {'evals': 0, 'sigs': set(), 'stats': {}, 'violations': [], 'nviol': 0, 'samples': [],
             'sim_seconds': 0.0, 'discarded': 0, 'cells': 0, 'units': 0, 'units_planned': len(units),
             'cpu_s': 0.0}
    deadline = t_start + budget_s
    ctx = multiprocessing.get_context('fork')
    harness_error = None
    try:
        with ProcessPoolExecutor(max_workers=workers, mp_context=ctx, initializer=_worker_init,
                                 initargs=(modname,)) as pool:
            pending = set()
            queue = must + opt
            qi = 0
            min_units = min(len(queue), workers * 2)

            def submit_more():
                nonlocal qi
                while qi < len(queue) and len(pending) < workers * 2:
                    u = queue[qi]
                    # past the wall budget only mandatory units still run -- but never fewer than one
                    # round of units, so that a slow start-up cannot turn into an empty (vacuous) pass
                    if not u.get('must') and _now() > deadline and qi >= min_units:
                        qi = len(queue)
                        break
                    pending.add(pool.submit(_worker_run, u))
                    qi += 1

            submit_more()
            while pending:
                done = next(as_completed(pending))
                pending.discard(done)
                res = done.result()
                _merge(total, res)
                submit_more()
    except BrokenProcessPool as e:
        harness_error = 'worker died or overran its watchdog: %r' % (e,)
    except Exception as e:
        harness_error = 'driver exception: %r\n%s' % (e, traceback.format_exc())

    if harness_error:
        print('HARNESS-ERROR %s' % harness_error)
        return 2
    if total['evals'] == 0:
        print('HARNESS-ERROR no run was executed (a pass over nothing is not a pass)')
        return 2

    # 3. triage violations
    groups = {}
    for v in total['violations']:
        gk = (v['clause'], v.get('sigkey'))
        groups.setdefault(gk, []).append(v)
    known_hit = {}
    new = []
    for gk in sorted(groups, key=lambda x: (x[0], str(x[1]))):
        v = groups[gk][0]
        kf = match_known(known, prop, v)
        if kf is not None:
            known_hit.setdefault(kf['id'], [kf, 0])
            known_hit[kf['id']][1] += len(groups[gk])
        else:
            new.append(v)
    for kid in sorted(known_hit):
        kf, n = known_hit[kid]
        print('KNOWN-FINDING: property=%s %s [%s; %d occurrence(s) in this run]' % (prop, kf['what'], kid, n))

    replays = []
    min_deadline = _now() + float(os.environ.get('VERIF_MINIMISE_S', 240))
    for i, v in enumerate(new[:8]):
        desc = v['desc']
        try:
            if _now() < min_deadline:
                small, used = minimise(mod, desc, v['clause'], v.get('sigkey'))
            else:
                small, used = desc, 0
            r1 = mod.execute_desc(small)
            r2 = mod.execute_desc(small)
            if r1['digest'] != r2['digest'] and not nondet:
                print('HARNESS-ERROR replay digests differ for %s' % (v['clause'],))
                return 2
            vv = None
            for x in r1['violations']:
                if x['clause'] == v['clause'] and x.get('sigkey') == v.get('sigkey'):
                    vv = x
                    break
            if vv is None:
                for x in r1['violations']:
                    if x['clause'] == v['clause']:
                        vv = x
                        break
            if vv is None:
                # minimised description lost it: fall back to the original
                small = desc
                r1 = mod.execute_desc(small)
                vv = next((x for x in r1['violations'] if x['clause'] == v['clause']), None)
            if vv is None and nondet:
                vv = v
                r1 = dict(r1)
                r1['digest'] = None
            if vv is None:
                print('HARNESS-ERROR violation %s did not reproduce from its description' % (v['clause'],))
                return 2
            path = write_replay(mod, small, vv, r1['digest'], r1.get('events_tail', []), i)
            replays.append(path)
            print('VIOLATION property=%s replay=%s' % (prop, path))
            print('  clause=%s detail=%s (minimised with %d evaluations)' % (vv['clause'], str(vv.get('detail'))[:300], used))
        except Exception as e:
            print('HARNESS-ERROR while minimising %s: %r' % (v['clause'], e))
            traceback.print_exc()
            return 2
    if len(new) > 8:
        print('  (%d further distinct violation groups not minimised)' % (len(new) - 8))

    # 4. evidence
    wall = _now() - t_start
    ev = mod.evidence(tier, seed, total)
    cov = ev['coverage']
    cov.setdefault('evaluations', total['evals'])
    cov.setdefault('distinct_nontrivial', len(total['sigs']))
    cov.setdefault('samples', total['samples'][:5])
    cov['runs_per_hour'] = int(total['evals'] / max(wall, 1e-6) * 3600)
    cov['simulated_seconds'] = round(total['sim_seconds'], 3)
    cov['stats'] = dict(sorted(total['stats'].items()))
    cov['faults_fired'] = {k[6:]: v for k, v in sorted(total['stats'].items()) if k.startswith('fault.')}
    cov['probes'] = {k[6:]: v for k, v in sorted(total['stats'].items()) if k.startswith('probe.')}
    cov['seeds'] = {'base_seed': seed, 'derivation': 'every run description is generated from H(VERIF_SEED, property, run index); the run seed inside the description '
                    'decides every hashed fault, delay and adversary choice; one integer decides everything', 'seeds_per_hour': cov['runs_per_hour']}
    cov['units_run'] = total['units']
    cov['units_planned'] = total['units_planned']
    cov['runs_discarded_budget'] = total['discarded']
    cov['workers'] = workers
    cov['determinism_selftest'] = det
    cov['known_findings_hit'] = sorted(known_hit)
    cov['violation_groups_new'] = len(new)
    cov['violations_total_occurrences'] = total['nviol']
    ev['wall_s'] = round(wall, 2)
    ev['violations'] = len(new)
    ev['property_id'] = prop
    ev['tier'] = tier
    ev['seed'] = seed
    os.makedirs(EVIDENCE_DIR, exist_ok=True)
    with open(os.path.join(EVIDENCE_DIR, prop + '.json'), 'w') as f:
        json.dump(jsonable(ev), f, indent=1, sort_keys=True)

    print('%s tier=%s seed=%d runs=%d distinct=%d units=%d/%d sim_s=%.0f wall=%.1fs violations(new)=%d known=%d' % (
        prop, tier, seed, total['evals'], len(total['sigs']), total['units'], total['units_planned'],
        total['sim_seconds'], wall, len(new), len(known_hit)))
    if new:
        return 1
    if nondet:
        print('HARNESS-ERROR the tree under test is not deterministic under the simulator and no violation was found: no verdict')
        return 2
    return 0


def _merge(total, res):
    total['evals'] += res['evals']
    total['sigs'] |= res['sigs']
    for k, v in res['stats'].items():
        total['stats'][k] = total['stats'].get(k, 0) + v
    room = 200 - len(total['violations'])
    if room > 0:
        total['violations'].extend(res['violations'][:room])
    total['nviol'] += res['nviol']
    if len(total['samples']) < 5:
        total['samples'].extend(res['samples'][:5 - len(total['samples'])])
    total['sim_seconds'] += res['sim_seconds']
    total['discarded'] += res['discarded']
    total['cells'] += res.get('cells', 0)
    total['units'] += 1
    total['cpu_s'] += res.get('wall', 0.0)


def run_replay(mod, path):
    with open(path) as f:
        rp = json.load(f)
    desc = rp['desc']
    r = mod.execute_desc(desc)
    hit = [v for v in r['violations'] if v['clause'] == rp['clause']]
    if hit:
        if rp.get('digest') and r['digest'] != rp['digest']:
            print('REPLAY-DIVERGED property=%s clause=%s still violated but event-log digest differs '
                  '(%s vs recorded %s): the code under test changed since the replay was recorded, or a harness bug'
                  % (mod.ID, rp['clause'], r['digest'][:16], rp['digest'][:16]))
        print('VIOLATION property=%s replay=%s' % (mod.ID, path))
        print('  clause=%s detail=%s' % (hit[0]['clause'], str(hit[0].get('detail'))[:400]))
        return 1
    print('replay %s: clause %s not violated on this tree (digest %s)' % (path, rp['clause'], r['digest'][:16]))
    return 0


def main(argv=None):
    import argparse
    ap = argparse.ArgumentParser()
    ap.add_argument('prop')
    ap.add_argument('--tier', default=os.environ.get('VERIF_TIER', 'quick'), choices=['quick', 'thorough'])
    ap.add_argument('--replay')
    ap.add_argument('--seed', type=int, default=int(os.environ.get('VERIF_SEED', '0') or 0))
    a = ap.parse_args(argv)
    modname = 'bacsim.props.' + a.prop.lower()
    return run_check(modname, a.tier, a.seed, replay=a.replay)


if __name__ == '__main__':
    sys.exit(main())
