"""
bacsim.txngen -- seeded generators shared by the transaction-family checks
(C04, C05, C11, C12): configuration swarm, workload, fault profiles, run
signatures.  One integer decides everything.
"""

import random

from .world import H
from .stacks import TOK_BASE
from .txn import pt_service_len, seg_count
from . import wire

APDU_SIZES = [50, 128, 206, 480, 1024, 1476]
SEGS = ['noSegmentation', 'segmentedTransmit', 'segmentedReceive', 'segmentedBoth']
MAXSEGS = [2, 4, 8, 16, 32, 64]
ROLES = ['conf', 'conf-first', 'conf-seg', 'conf-last', 'cack', 'cack-first', 'cack-seg', 'cack-last',
         'segack-s', 'segack-c', 'sack', 'error', 'abort-s', 'abort-c']


def rng_for(*parts):
    return random.Random(H(*parts))


def payload_len_for_service_len(L):
    """Largest payload length n whose private-transfer service data is
    <= L octets (exact when representable)."""
    if L <= 8:
        return 0
    lo, hi = 0, L
    while lo < hi:
        mid = (lo + hi + 1) // 2
        if pt_service_len(mid) <= L:
            lo = mid
        else:
            hi = mid - 1
    return lo


def boundary_lengths(seg, kmax=4):
    """Payload lengths whose encoded service data lands on both sides of
    every multiple of seg up to kmax, plus 0 and 1."""
    out = {0, 1}
    for k in range(1, kmax + 1):
        for d in (-1, 0, 1):
            L = k * seg + d
            n = payload_len_for_service_len(L)
            out.add(n)
    return sorted(out)


def stack_cfg(name, addr, role, **kw):
    cfg = {'name': name, 'addr': addr, 'role': role, 'maxApdu': 1024, 'seg': 'segmentedBoth',
           'maxSegs': 64, 'win': 2, 'retries': 3, 'tout': 3000, 'tseg': 1000, 'app_timeout': 3000}
    cfg.update(kw)
    return cfg


def fault_profile(rng, tout_s, tseg_s, kinds=('drop', 'dup', 'delay'), allow_none=0.1):
    """Swarm profile: which kinds are enabled at all, at which rate, and with
    probability 1/4 a targeted placement."""
    if rng.random() < allow_none:
        return {'mode': 'none'}
    k = rng.randint(1, len(kinds))
    enabled = rng.sample(list(kinds), k)
    rate = rng.choice([0.005, 0.02, 0.05, 0.15])
    rates = {kk: rate / len(enabled) * (1.5 if kk == 'drop' else 1.0) for kk in enabled}
    spec = {'mode': 'hashed', 'rates': rates, 'salt': rng.randrange(1 << 30),
            'delays': [0.0005, 0.01, tseg_s, tseg_s + 0.001, tout_s, tout_s - 0.001, 2 * tout_s, 0.5 * tseg_s],
            'gaps': [0.0, 0.001, tseg_s, tout_s, 3 * tout_s, 10 * tout_s]}
    if rng.random() < 0.25:
        spec['roles'] = rng.sample(ROLES, rng.randint(1, 3))
        for kk in rates:
            rates[kk] = min(0.5, rates[kk] * 6)
    return spec


def run_signature(h):
    """Abstracted event sequence: kinds, roles, nodes -- no times, no octets."""
    parts = []
    for e in h.w.events:
        k = e[2]
        if k == 'wire':
            # (lan, src, dst, hex, acts)
            parts.append(('w', e[4], e[5], e[7]))
        elif k in ('conf',):
            parts.append((k, e[3], e[6]))
        elif k in ('iocb',):
            parts.append((k, e[3], e[5]))
        elif k in ('ind', 'crash', 'restart', 'silence', 'cancel', 'clock'):
            parts.append((k, e[3]))
    # roles per wire frame
    roles = tuple(f['role'] + ('!' + '+'.join(x['kind'] for x in f['faults']) if f['faults'] else '')
                  for f in h.w.wire)
    return H(tuple(parts), roles)


def trace_sample(h, limit=60):
    """Abstract trace for evidence samples."""
    out = []
    for f in h.w.wire[:limit]:
        out.append('%.3f %s>%s %s%s' % (f['t'], f['src'], f['dst'], f['role'],
                                        (' !' + '+'.join(x['kind'] for x in f['faults'])) if f['faults'] else ''))
    return out
