"""
bacsim.stacks -- builders that assemble complete, real bacpypes stacks on the
simulated fabric, plus the harness' own applications (echo server, recording
client) for the transaction scenario family.
"""

import hashlib

from .env import clock
from .world import SimNode, addr_str

from bacpypes.comm import bind, Client
from bacpypes.pdu import Address, PDU, LocalBroadcast
from bacpypes.app import Application, ApplicationIOController
from bacpypes.appservice import StateMachineAccessPoint, ApplicationServiceAccessPoint
from bacpypes.netservice import NetworkServiceAccessPoint, NetworkServiceElement
from bacpypes.local.device import LocalDeviceObject
from bacpypes.object import register_object_type
from bacpypes.iocb import IOCB
from bacpypes.apdu import ConfirmedPrivateTransferRequest, ConfirmedPrivateTransferACK, \
    SimpleAckPDU, ComplexAckPDU, ErrorPDU, RejectPDU, AbortPDU, Error, IAmRequest, WhoIsRequest
from bacpypes.primitivedata import OctetString
from bacpypes.constructeddata import Any
from bacpypes.service.device import WhoIsIAmServices

VENDOR = 999
TOK_BASE = 0x01000000       # tokens always encode in four octets


@register_object_type(vendor_id=VENDOR)
class SimDevice(LocalDeviceObject):
    pass


class QuietNSE(NetworkServiceElement):
    _startup_disabled = True


def payload(seed, tok, dirn, n):
    """Deterministic pseudo-random payload: any slipped, swapped, duplicated
    or missing octet is visible."""
    if n <= 0:
        return b''
    return hashlib.shake_128(repr((seed, tok, dirn)).encode()).digest(n)


def phash(b):
    return hashlib.sha1(b).hexdigest()[:10]


def make_device(cfg):
    return SimDevice(
        objectName=cfg['name'],
        objectIdentifier=('device', 1000 + cfg['addr']),
        maxApduLengthAccepted=cfg.get('maxApdu', 1024),
        segmentationSupported=cfg.get('seg', 'segmentedBoth'),
        maxSegmentsAccepted=cfg.get('maxSegs', 64),
        vendorIdentifier=VENDOR,
        numberOfApduRetries=cfg.get('retries', 3),
        apduTimeout=cfg.get('tout', 3000),
        apduSegmentTimeout=cfg.get('tseg', 1000),
    )


def classify_outcome(apdu):
    """(kind, detail, octets|None) of an APDU handed to a client application."""
    if isinstance(apdu, ConfirmedPrivateTransferACK):
        rb = apdu.resultBlock
        data = bytes(rb.cast_out(OctetString)) if rb is not None else b''
        return ('ack', apdu.serviceNumber, data)
    if isinstance(apdu, SimpleAckPDU):
        return ('sack', None, None)
    if isinstance(apdu, ComplexAckPDU):
        return ('cack', None, None)
    if isinstance(apdu, AbortPDU):
        return ('abort', apdu.apduAbortRejectReason, None)
    if isinstance(apdu, RejectPDU):
        return ('reject', apdu.apduAbortRejectReason, None)
    if isinstance(apdu, Error):
        return ('error', (str(getattr(apdu, 'errorClass', None)), str(getattr(apdu, 'errorCode', None))), None)
    if isinstance(apdu, ErrorPDU):
        return ('error', None, None)
    if isinstance(apdu, Exception):
        return ('exc', type(apdu).__name__ + ':' + str(apdu), None)
    return ('other', type(apdu).__name__, None)


class _TxnAppMixin:
    """Harness application behaviour shared by the direct and the IOCB
    flavour: echo server + recording client."""

    def _txn_init(self, world, cfg):
        self.world = world
        self.cfg = cfg
        self.label = cfg['name']
        self.confs = []      # (seq, t, peer, invoke, kind, detail, data)
        self.inds = []       # (seq, t, peer, invoke, tok, data)
        self.iocb_done = []  # (seq, t, tok, kind, detail, data, n_callbacks)
        self.iocb_apdu_invoke = {}
        self.resp_plan = {}  # tok -> (rs_len, slow)
        self.alive = True

    # --- server side
    def do_ConfirmedPrivateTransferRequest(self, apdu):
        w = self.world
        sp = apdu.serviceParameters
        data = bytes(sp.cast_out(OctetString)) if sp is not None else b''
        tok = apdu.serviceNumber
        peer = addr_str(apdu.pduSource)
        seq = w.log('ind', self.label, peer, apdu.apduInvokeID, tok, len(data), phash(data))
        self.inds.append((seq, w.now, peer, apdu.apduInvokeID, tok, data))
        rs_len, slow = self.resp_plan.get(tok, (0, 0.0))
        if slow and slow > 0.0:
            w.after(slow, self._respond, apdu, tok, rs_len)
        else:
            self._respond(apdu, tok, rs_len)

    def _respond(self, apdu, tok, rs_len):
        if not self.alive:
            return
        ack = ConfirmedPrivateTransferACK(context=apdu)
        ack.vendorID = VENDOR
        ack.serviceNumber = tok
        if rs_len > 0:
            ack.resultBlock = Any(OctetString(payload(self.world.seed, tok, 'rs', rs_len)))
        self.world.log('resp', self.label, addr_str(apdu.pduSource), apdu.apduInvokeID, tok, rs_len)
        self.response(ack)

    # --- I-Am bookkeeping (what the library's documentation intends)
    def do_IAmRequest(self, apdu):
        self.world.log('iam', self.label, addr_str(apdu.pduSource), apdu.iAmDeviceIdentifier[1],
                       apdu.maxAPDULengthAccepted, str(apdu.segmentationSupported))
        self.deviceInfoCache.iam_device_info(apdu)

    # --- client side
    def _record_conf(self, apdu):
        w = self.world
        kind, detail, data = classify_outcome(apdu)
        peer = addr_str(apdu.pduSource) if getattr(apdu, 'pduSource', None) is not None else None
        inv = getattr(apdu, 'apduInvokeID', None)
        seq = w.log('conf', self.label, peer, inv, kind, repr(detail),
                    len(data) if data is not None else -1, phash(data) if data is not None else '')
        self.confs.append((seq, w.now, peer, inv, kind, detail, data))
        for fn in w.outcome_hooks:
            fn(seq)
        if kind == 'ack':
            for fn in w.outcome_tok_hooks:
                fn(self.label, detail)

    def make_request(self, server_addr, tok, rq_len, invoke=None):
        req = ConfirmedPrivateTransferRequest(vendorID=VENDOR, serviceNumber=tok)
        if rq_len > 0:
            req.serviceParameters = Any(OctetString(payload(self.world.seed, tok, 'rq', rq_len)))
        req.pduDestination = Address(server_addr)
        if invoke is not None:
            req.apduInvokeID = invoke
        return req


class TxnApp(_TxnAppMixin, Application, WhoIsIAmServices):
    _startup_disabled = True

    def __init__(self, world, cfg, device):
        Application.__init__(self, device)
        self._txn_init(world, cfg)

    def confirmation(self, apdu):
        self._record_conf(apdu)


class TxnIOApp(_TxnAppMixin, ApplicationIOController, WhoIsIAmServices):
    _startup_disabled = True

    def __init__(self, world, cfg, device):
        ApplicationIOController.__init__(self, device)
        self._txn_init(world, cfg)

    def submit_iocb(self, req, tok):
        iocb = IOCB(req)
        iocb._tok = tok
        iocb._ncb = 0
        iocb.add_callback(self._iocb_cb)
        return iocb

    def _iocb_cb(self, iocb):
        w = self.world
        iocb._ncb += 1
        if iocb.ioResponse is not None and iocb.ioError is not None:
            kind, detail, data = ('both', None, None)
        elif iocb.ioResponse is not None:
            kind, detail, data = classify_outcome(iocb.ioResponse)
        elif iocb.ioError is not None:
            kind, detail, data = classify_outcome(iocb.ioError)
        else:
            kind, detail, data = ('none', None, None)
        seq = w.log('iocb', self.label, iocb._tok, kind, repr(detail),
                    len(data) if data is not None else -1, phash(data) if data is not None else '')
        # the invoke id carried by whatever completed this control block (a reply, an error, an abort ...)
        done_by = iocb.ioResponse if iocb.ioResponse is not None else iocb.ioError
        self.iocb_apdu_invoke[iocb._tok] = getattr(done_by, 'apduInvokeID', None)
        self.iocb_done.append((seq, w.now, iocb._tok, kind, detail, data, iocb._ncb))
        for fn in w.outcome_hooks:
            fn(seq)
        for fn in w.outcome_tok_hooks:
            fn(self.label, iocb._tok)


class VlanStack:
    """Application -> ASAP -> SMAP -> NSAP(+NSE) -> SimNode on a SimNetwork.
    Mirrors what app.BIPSimpleApplication assembles above the link layer."""

    def __init__(self, world, cfg, lan, app_class=None, net=None):
        self.world = world
        self.cfg = cfg
        self.name = cfg['name']
        self.address = Address(cfg['addr'])
        self.device = make_device(cfg)
        if app_class is None:
            app_class = TxnIOApp if cfg.get('mode') == 'iocb' else TxnApp
        self.app = app_class(world, cfg, self.device)
        self.asap = ApplicationServiceAccessPoint()
        self.smap = StateMachineAccessPoint(self.device)
        self.smap.deviceInfoCache = self.app.deviceInfoCache
        if 'win' in cfg:
            self.smap.proposedWindowSize = cfg['win']
        if 'app_timeout' in cfg:
            self.smap.applicationTimeout = cfg['app_timeout']
        self.nsap = NetworkServiceAccessPoint()
        self.nse = QuietNSE()
        bind(self.nse, self.nsap)
        bind(self.app, self.asap, self.smap, self.nsap)
        self.node = SimNode(world, self.name, self.address, lan)
        if net is None:
            self.nsap.bind(self.node)
        else:
            self.nsap.bind(self.node, net, self.address)
        self.lan = lan

    def crash(self):
        self.node.crash()
        self.app.alive = False

    def residue(self):
        """Read-only state probe for the residue clauses."""
        out = {}
        if self.smap.clientTransactions:
            out['clientTransactions'] = len(self.smap.clientTransactions)
        if self.smap.serverTransactions:
            out['serverTransactions'] = len(self.smap.serverTransactions)
        refs = 0
        seen = set()
        for di in self.app.deviceInfoCache.cache.values():
            if id(di) in seen:
                continue
            seen.add(id(di))
            refs += getattr(di, '_ref_count', 0)
        if refs:
            out['deviceinfo_refs'] = refs
        qba = getattr(self.app, 'queue_by_address', None)
        if qba:
            n = 0
            for q in qba.values():
                n += len(q.ioQueue.queue) + (1 if q.active_iocb else 0)
            if n:
                out['iocb_queued'] = n
        return out


class RawNode(Client):
    """A bare node the simulator itself speaks through (adversary, garbage
    injector, scripted peer).  Frames are built by the harness' own encoder."""

    def __init__(self, world, label, addr, lan, promiscuous=False, spoofing=False):
        Client.__init__(self)
        self.world = world
        self.label = label
        self.address = Address(addr)
        self.node = SimNode(world, label, self.address, lan, promiscuous=promiscuous, spoofing=spoofing)
        bind(self, self.node)
        self.rx = []

    def send(self, octets, dest, source=None):
        pdu = PDU(octets, destination=dest if isinstance(dest, Address) else
                  (LocalBroadcast() if dest == '*' else Address(dest)))
        if source is not None:
            pdu.pduSource = Address(source)
        self.request(pdu)

    def confirmation(self, pdu):
        w = self.world
        seq = w.log('rawrx', self.label, addr_str(pdu.pduSource), addr_str(pdu.pduDestination), bytes(pdu.pduData).hex())
        self.rx.append((seq, w.now, addr_str(pdu.pduSource), addr_str(pdu.pduDestination), bytes(pdu.pduData)))


def stack_timers(tm_tasks):
    """Names of task classes in the scheduler heap (residue probe)."""
    out = {}
    for when, n, task in tm_tasks:
        nm = type(task).__name__
        out[nm] = out.get(nm, 0) + 1
    return out
