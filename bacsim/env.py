"""
bacsim.env -- process bootstrap for the deterministic simulator.

Importing this module
  * puts the bacpypes tree under test (BACPYPES_SRC, default /repo/py34) first
    on sys.path and asserts that is the one imported,
  * pins TZ=UTC,
  * creates the one virtual clock and rebinds every module-level ``_time``
    reference of bacpypes to it,
  * creates the SimTaskManager singleton (overrides get_time only) with an
    in-memory trigger,
  * installs a logging handler that records every exception the event loop
    swallowed (diagnostic only).

Nothing in here draws random numbers or reads a real clock.
"""

import os
import sys
import logging
import traceback

SRC = os.environ.get('BACPYPES_SRC', '/repo/py34')
if SRC not in sys.path[:1]:
    sys.path.insert(0, SRC)
os.environ['TZ'] = 'UTC'
import time as _real_time
_real_time.tzset()

import bacpypes
if not os.path.abspath(bacpypes.__file__).startswith(os.path.abspath(SRC) + os.sep):
    raise RuntimeError("bacpypes imported from %s, expected under %s" % (bacpypes.__file__, SRC))

import bacpypes.task as _task
import bacpypes.core as _core
import bacpypes.appservice as _appservice
import bacpypes.iocb as _iocb
import bacpypes.udp as _udp


class BudgetExceeded(BaseException):
    """Raised from inside the fabric / loop to enforce frame and event caps.
    A BaseException so that core.run/run_once (``except Exception``) cannot
    swallow it."""


class Clock:
    """The only clock any code in the process reads."""
    __slots__ = ('now', 'ticks', 'tick_cap')

    def __init__(self):
        self.now = 1000000000.0
        self.ticks = 0
        self.tick_cap = 1 << 62

    def __call__(self):
        # called once per iteration of the real loop (get_next_task); the cap
        # bounds zero-time livelocks that never let virtual time advance
        self.ticks += 1
        if self.ticks > self.tick_cap:
            self.ticks = 0
            raise BudgetExceeded('tick cap')
        return self.now


clock = Clock()

# every module-level ``from time import time as _time`` is rebound
_task._time = clock
_appservice._time = clock
_iocb._time = clock
_udp._time = clock


class MemTrigger:
    """In-memory stand-in for task._Trigger (os.pipe in asyncore's map)."""
    def __init__(self):
        self.flag = False
        self.sets = 0

    def set(self):
        self.flag = True
        self.sets += 1

    def clear(self):
        self.flag = False

    def isSet(self):
        return self.flag


# avoid creating the os.pipe based trigger at all
_task._Trigger = None


class SimTaskManager(_task.TaskManager):
    def get_time(self):
        return clock.now


tm = SimTaskManager()
tm.trigger = None


class LoopErrorLog(logging.Handler):
    """Collects (logger, exception type, innermost file:function) of every
    exception logged by bacpypes (core.run/run_once swallow everything)."""

    def __init__(self):
        logging.Handler.__init__(self, level=logging.WARNING)
        self.records = []

    def emit(self, rec):
        try:
            if rec.exc_info and rec.exc_info[2] is not None:
                tb = traceback.extract_tb(rec.exc_info[2])
                last = tb[-1]
                self.records.append((rec.name, rec.exc_info[0].__name__,
                                     os.path.basename(last.filename), last.name))
            else:
                if rec.levelno >= logging.ERROR:
                    self.records.append((rec.name, 'log', '', rec.getMessage()[:80]))
        except Exception:   # pragma: no cover
            pass

    def reset(self):
        self.records = []


errlog = LoopErrorLog()
_lg = logging.getLogger('bacpypes')
_lg.addHandler(errlog)
_lg.propagate = False
_lg.setLevel(logging.WARNING)
# __main__-level and test loggers stay quiet too
logging.getLogger().addHandler(logging.NullHandler())


def reset_process_state():
    """Return every process-global of bacpypes that a run can touch to its
    initial value.  Completeness is checked by the determinism self-test."""
    import itertools
    import bacpypes.comm as comm
    from bacpypes.settings import settings
    tm.tasks = []
    tm.counter = itertools.count()
    tm.trigger = None
    _core.deferredFns = []
    _core.running = False
    _core.sleeptime = 0.0
    _core.taskManager = tm
    _iocb._identNext = 1
    _iocb.local_controllers = {}
    comm.client_map.clear()
    comm.server_map.clear()
    comm.service_map.clear()
    comm.element_map.clear()
    settings['route_aware'] = False
    errlog.reset()
    clock.now = 1000000000.0
    clock.ticks = 0
