"""
bacsim.ipstack -- BACnet/IP on the simulated fabric: in-memory datagram
director (replaces udp.UDPDirector behind the real UDPMultiplexer), hosts,
subnets joined by the repo's vlan.IPRouter, builders for BIPSimple /
BIPForeign / BIPBBMD stacks and for raw hosts the harness speaks through.
"""

from . import env
from .env import clock
from .world import SimIPNode, SimIPNetwork, addr_str

import bacpypes.core as core
import bacpypes.bvllservice as bvllservice
from bacpypes.comm import Client, Server, ServiceAccessPoint, bind
from bacpypes.pdu import Address, PDU, LocalBroadcast
from bacpypes.vlan import IPRouter
from bacpypes.bvllservice import BIPSimple, BIPForeign, BIPBBMD, AnnexJCodec, UDPMultiplexer
from bacpypes.appservice import StateMachineAccessPoint, ApplicationServiceAccessPoint
from bacpypes.netservice import NetworkServiceAccessPoint, NetworkServiceElement

_current_host = [None]


class Host(Client):
    """One IP host: a SimIPNode on a subnet plus the socket layer that hands
    datagrams to whichever in-memory director is bound to the destination."""

    def __init__(self, world, label, addr, lan):
        Client.__init__(self)
        self.world = world
        self.label = label
        self.address = addr if isinstance(addr, Address) else Address(addr)
        self.node = SimIPNode(world, label, self.address, lan)
        bind(self, self.node)
        self.sockets = {}       # bound address tuple -> director
        self.raw_rx = None      # optional callable(src, dst, octets) for raw hosts

    def confirmation(self, pdu):
        """datagram arriving from the subnet"""
        dst = pdu.pduDestination
        if self.raw_rx is not None:
            self.raw_rx(pdu.pduSource, dst, bytes(pdu.pduData))
            return
        d = self.sockets.get(tuple(dst))
        if d is None:
            # on Linux a socket bound to the unicast address does not receive subnet broadcasts
            return
        # exactly like UDPDirector.handle_read: hand the datagram to the stack from the deferred queue
        core.deferred(d._response, PDU(bytes(pdu.pduData), source=tuple(pdu.pduSource)))

    def send(self, octets, dest):
        self.request(PDU(octets, source=self.address.addrTuple, destination=tuple(dest)))


class SimUDPDirector(Server, ServiceAccessPoint):
    """In-memory stand-in for udp.UDPDirector (same constructor signature)."""

    def __init__(self, address, timeout=0, reuse=False, actorClass=None, sid=None, sapID=None):
        Server.__init__(self, sid)
        ServiceAccessPoint.__init__(self, sapID)
        self.address = address
        host = _current_host[0]
        if host is None:
            raise RuntimeError('no simulated host is being built')
        self.host = host
        host.sockets[tuple(address)] = self
        self.closed = False

    def indication(self, pdu):
        if self.closed:
            return
        self.host.send(bytes(pdu.pduData), pdu.pduDestination)

    def _response(self, pdu):
        if self.closed:
            return
        self.response(pdu)

    def close_socket(self):
        self.closed = True
        self.host.sockets.pop(tuple(self.address), None)


# the real UDPMultiplexer looks this name up at construction time
bvllservice.UDPDirector = SimUDPDirector


class QuietNSE(NetworkServiceElement):
    _startup_disabled = True


class IPFabric:
    def __init__(self, world):
        self.world = world
        self.router = IPRouter()
        self.lans = {}
        self.hosts = {}

    def subnet(self, name, router_addr):
        lan = self.world.new_network(name, ip=True)
        self.lans[name] = lan
        self.router.add_network(Address(router_addr), lan)
        return lan

    def host(self, label, addr, lan_name):
        h = Host(self.world, label, Address(addr), self.lans[lan_name])
        self.hosts[label] = h
        return h


class BIPLink:
    """BIPSimple | BIPForeign | BIPBBMD -> AnnexJCodec -> real UDPMultiplexer ->
    in-memory director(s) on a Host."""

    def __init__(self, host, kind='simple', **kw):
        self.host = host
        self.kind = kind
        if kind == 'simple':
            self.bip = BIPSimple()
        elif kind == 'foreign':
            self.bip = BIPForeign(kw.get('bbmd'), kw.get('ttl'))
        elif kind == 'bbmd':
            self.bip = BIPBBMD(host.address)
        else:
            raise ValueError(kind)
        self.annexj = AnnexJCodec()
        _current_host[0] = host
        try:
            self.mux = UDPMultiplexer(host.address, noBroadcast=(kind == 'foreign'))
        finally:
            _current_host[0] = None
        bind(self.bip, self.annexj, self.mux.annexJ)


class IPStack:
    """Application -> ASAP -> SMAP -> NSAP(+NSE) -> BIP link on a Host;
    mirrors app.BIPSimpleApplication / BIPForeignApplication."""

    def __init__(self, world, host, app, device, kind='simple', **kw):
        self.world = world
        self.host = host
        self.name = host.label
        self.app = app
        self.device = device
        self.asap = ApplicationServiceAccessPoint()
        self.smap = StateMachineAccessPoint(device)
        self.smap.deviceInfoCache = app.deviceInfoCache
        app.smap = self.smap
        app.asap = self.asap
        self.nsap = NetworkServiceAccessPoint()
        self.nse = QuietNSE()
        bind(self.nse, self.nsap)
        bind(app, self.asap, self.smap, self.nsap)
        self.link = BIPLink(host, kind, **kw)
        self.nsap.bind(self.link.bip, address=host.address)
        app.nsap = self.nsap

    def residue(self):
        out = {}
        if self.smap.clientTransactions:
            out['clientTransactions'] = len(self.smap.clientTransactions)
        if self.smap.serverTransactions:
            out['serverTransactions'] = len(self.smap.serverTransactions)
        refs = 0
        seen = set()
        for di in self.app.deviceInfoCache.cache.values():
            if id(di) not in seen:
                seen.add(id(di))
                refs += getattr(di, '_ref_count', 0)
        if refs:
            out['deviceinfo_refs'] = refs
        return out
