"""
bacsim.wire -- the harness' own header codecs (BVLL, NPDU, APDU fixed headers,
a handful of tag helpers).  Written from the BACnet standard; shares no code
with bacpypes' bvll.py / npdu.py / apdu.py / primitivedata.py so that a codec
defect cannot hide on both sides of an oracle.
"""

import struct

MAX_APDU = {0: 50, 1: 128, 2: 206, 3: 480, 4: 1024, 5: 1476}
MAX_APDU_CODE = {v: k for k, v in MAX_APDU.items()}
MAX_SEGS = {0: None, 1: 2, 2: 4, 3: 8, 4: 16, 5: 32, 6: 64, 7: None}

T_CONF, T_UNCONF, T_SACK, T_CACK, T_SEGACK, T_ERROR, T_REJECT, T_ABORT = range(8)
TYPE_NAMES = ['conf', 'unconf', 'sack', 'cack', 'segack', 'error', 'reject', 'abort']


class Short(Exception):
    pass


def decode_apdu(b):
    """Decode the fixed header of an APDU.  Returns a dict or None when the
    octets are too short / not an APDU type."""
    if len(b) < 1:
        return None
    t = b[0] >> 4
    d = {'type': t, 'name': TYPE_NAMES[t] if t < 8 else 'unknown', 'len': len(b)}
    try:
        if t == T_CONF:
            d['seg'] = bool(b[0] & 0x08)
            d['mor'] = bool(b[0] & 0x04)
            d['sa'] = bool(b[0] & 0x02)
            d['maxsegs'] = (b[1] >> 4) & 0x07
            d['maxresp'] = b[1] & 0x0f
            d['invoke'] = b[2]
            i = 3
            if d['seg']:
                d['seq'] = b[3]
                d['win'] = b[4]
                i = 5
            d['service'] = b[i]
            d['data'] = bytes(b[i + 1:])
        elif t == T_UNCONF:
            d['service'] = b[1]
            d['data'] = bytes(b[2:])
        elif t == T_SACK:
            d['invoke'] = b[1]
            d['service'] = b[2]
        elif t == T_CACK:
            d['seg'] = bool(b[0] & 0x08)
            d['mor'] = bool(b[0] & 0x04)
            d['invoke'] = b[1]
            i = 2
            if d['seg']:
                d['seq'] = b[2]
                d['win'] = b[3]
                i = 4
            d['service'] = b[i]
            d['data'] = bytes(b[i + 1:])
        elif t == T_SEGACK:
            d['nak'] = bool(b[0] & 0x02)
            d['srv'] = bool(b[0] & 0x01)
            d['invoke'] = b[1]
            d['seq'] = b[2]
            d['win'] = b[3]
        elif t == T_ERROR:
            d['invoke'] = b[1]
            d['service'] = b[2]
            d['data'] = bytes(b[3:])
        elif t == T_REJECT:
            d['invoke'] = b[1]
            d['reason'] = b[2]
        elif t == T_ABORT:
            d['srv'] = bool(b[0] & 0x01)
            d['invoke'] = b[1]
            d['reason'] = b[2]
        else:
            return None
    except IndexError:
        return None
    return d


def decode_npdu(b):
    """Decode an NPDU header.  Returns dict with 'apdu' (bytes) for
    application messages or 'msg' / 'msgdata' for network messages; None if
    malformed."""
    try:
        if b[0] != 1:
            return None
        c = b[1]
        d = {'ctl': c, 'netmsg': bool(c & 0x80), 'der': bool(c & 0x04), 'prio': c & 3,
             'dnet': None, 'dadr': None, 'snet': None, 'sadr': None, 'hop': None}
        i = 2
        if c & 0x20:
            d['dnet'] = (b[i] << 8) | b[i + 1]
            n = b[i + 2]
            d['dadr'] = bytes(b[i + 3:i + 3 + n])
            if len(d['dadr']) != n:
                return None
            i += 3 + n
        if c & 0x08:
            d['snet'] = (b[i] << 8) | b[i + 1]
            n = b[i + 2]
            d['sadr'] = bytes(b[i + 3:i + 3 + n])
            if len(d['sadr']) != n:
                return None
            i += 3 + n
        if c & 0x20:
            d['hop'] = b[i]
            i += 1
        if c & 0x80:
            d['msg'] = b[i]
            i += 1
            if d['msg'] >= 0x80:
                d['vendor'] = (b[i] << 8) | b[i + 1]
                i += 2
            d['msgdata'] = bytes(b[i:])
        else:
            d['apdu'] = bytes(b[i:])
        return d
    except IndexError:
        return None


def encode_npdu(apdu=b'', dnet=None, dadr=b'', snet=None, sadr=b'', hop=255,
                der=False, prio=0, msg=None, msgdata=b''):
    c = prio & 3
    if der:
        c |= 0x04
    if dnet is not None:
        c |= 0x20
    if snet is not None:
        c |= 0x08
    if msg is not None:
        c |= 0x80
    out = bytearray([1, c])
    if dnet is not None:
        out += struct.pack('!HB', dnet, len(dadr)) + dadr
    if snet is not None:
        out += struct.pack('!HB', snet, len(sadr)) + sadr
    if dnet is not None:
        out.append(hop & 0xff)
    if msg is not None:
        out.append(msg)
        out += msgdata
    else:
        out += apdu
    return bytes(out)


# network message types
NM_WHO_IS_ROUTER = 0
NM_I_AM_ROUTER = 1
NM_I_COULD_BE_ROUTER = 2
NM_REJECT = 3
NM_ROUTER_BUSY = 4
NM_ROUTER_AVAILABLE = 5
NM_INIT_RT = 6
NM_INIT_RT_ACK = 7
NM_ESTABLISH = 8
NM_DISCONNECT = 9
NM_WHAT_IS_NETNUM = 0x12
NM_NETNUM_IS = 0x13


def nets_of(msgdata):
    return [(msgdata[i] << 8) | msgdata[i + 1] for i in range(0, len(msgdata) - 1, 2)]


def pack_nets(nets):
    return b''.join(struct.pack('!H', n) for n in nets)


# ---------------------------------------------------------------- BVLL

BV_RESULT = 0
BV_WRITE_BDT = 1
BV_READ_BDT = 2
BV_READ_BDT_ACK = 3
BV_FORWARDED = 4
BV_REGISTER_FD = 5
BV_READ_FDT = 6
BV_READ_FDT_ACK = 7
BV_DELETE_FDT = 8
BV_DISTRIBUTE = 9
BV_ORIG_UNICAST = 10
BV_ORIG_BROADCAST = 11
BV_NAMES = ['result', 'write-bdt', 'read-bdt', 'read-bdt-ack', 'forwarded', 'register-fd',
            'read-fdt', 'read-fdt-ack', 'delete-fdt', 'distribute', 'unicast', 'broadcast']


def ip6(b):
    """6 octets -> ('a.b.c.d', port)"""
    return ('%d.%d.%d.%d' % (b[0], b[1], b[2], b[3]), (b[4] << 8) | b[5])


def pack_ip6(t):
    host, port = t
    return bytes(int(x) for x in host.split('.')) + struct.pack('!H', port)


def decode_bvll(b):
    try:
        if b[0] != 0x81:
            return None
        f = b[1]
        ln = (b[2] << 8) | b[3]
        d = {'fn': f, 'name': BV_NAMES[f] if f < len(BV_NAMES) else 'unknown', 'length': ln,
             'length_ok': ln == len(b)}
        body = bytes(b[4:])
        if f == BV_RESULT:
            d['code'] = (body[0] << 8) | body[1]
        elif f == BV_FORWARDED:
            d['origin'] = ip6(body[:6])
            if len(body) < 6:
                return None
            d['npdu'] = body[6:]
        elif f == BV_REGISTER_FD:
            d['ttl'] = (body[0] << 8) | body[1]
        elif f == BV_READ_FDT_ACK:
            ents = []
            for i in range(0, len(body) - 9, 10):
                ents.append((ip6(body[i:i + 6]), (body[i + 6] << 8) | body[i + 7],
                             (body[i + 8] << 8) | body[i + 9]))
            d['fdt'] = ents
        elif f == BV_DELETE_FDT:
            if len(body) < 6:
                return None
            d['entry'] = ip6(body[:6])
        elif f in (BV_DISTRIBUTE, BV_ORIG_UNICAST, BV_ORIG_BROADCAST):
            d['npdu'] = body
        return d
    except IndexError:
        return None


def encode_bvll(fn, body=b''):
    return bytes([0x81, fn]) + struct.pack('!H', 4 + len(body)) + body


# ---------------------------------------------------------------- APDU builders

def conf_req(invoke, service, data=b'', maxsegs=0, maxresp=5, sa=False,
             seg=False, mor=False, seq=0, win=0):
    b0 = 0x00 | (0x08 if seg else 0) | (0x04 if mor else 0) | (0x02 if sa else 0)
    out = bytearray([b0, ((maxsegs & 7) << 4) | (maxresp & 15), invoke & 0xff])
    if seg:
        out += bytes([seq & 0xff, win & 0xff])
    out.append(service)
    return bytes(out) + data


def unconf_req(service, data=b''):
    return bytes([0x10, service]) + data


def simple_ack(invoke, service):
    return bytes([0x20, invoke & 0xff, service])


def complex_ack(invoke, service, data=b'', seg=False, mor=False, seq=0, win=0):
    b0 = 0x30 | (0x08 if seg else 0) | (0x04 if mor else 0)
    out = bytearray([b0, invoke & 0xff])
    if seg:
        out += bytes([seq & 0xff, win & 0xff])
    out.append(service)
    return bytes(out) + data


def segment_ack(invoke, seq, win, nak=False, srv=False):
    return bytes([0x40 | (0x02 if nak else 0) | (0x01 if srv else 0), invoke & 0xff, seq & 0xff, win & 0xff])


def error_pdu(invoke, service, eclass=0, ecode=0):
    return bytes([0x50, invoke & 0xff, service]) + tag_enum(eclass) + tag_enum(ecode)


def reject_pdu(invoke, reason):
    return bytes([0x60, invoke & 0xff, reason & 0xff])


def abort_pdu(invoke, reason, srv=False):
    return bytes([0x70 | (1 if srv else 0), invoke & 0xff, reason & 0xff])


# ---------------------------------------------------------------- tags

def _uint_bytes(v):
    if v < 0:
        raise ValueError
    n = max(1, (v.bit_length() + 7) // 8)
    return v.to_bytes(n, 'big')


def _tag_head(num, cls, lvt):
    """tag number, class (0 app, 1 context), length/value/type"""
    out = bytearray()
    b = (0x08 if cls else 0)
    if num < 15:
        b |= num << 4
    else:
        b |= 0xF0
    if lvt < 5:
        b |= lvt
        out.append(b)
        if num >= 15:
            out.append(num)
    else:
        b |= 5
        out.append(b)
        if num >= 15:
            out.append(num)
        if lvt < 254:
            out.append(lvt)
        elif lvt < 65536:
            out += b'\xfe' + struct.pack('!H', lvt)
        else:
            out += b'\xff' + struct.pack('!L', lvt)
    return bytes(out)


def ctx_uint(num, v):
    b = _uint_bytes(v)
    return _tag_head(num, 1, len(b)) + b


def ctx_enum(num, v):
    return ctx_uint(num, v)


def ctx_objid(num, otype, inst):
    return _tag_head(num, 1, 4) + struct.pack('!L', (otype << 22) | inst)


def ctx_bool(num, v):
    return _tag_head(num, 1, 1) + (b'\x01' if v else b'\x00')


def ctx_open(num):
    return bytes([(num << 4) | 0x0E]) if num < 15 else bytes([0xFE, num])


def ctx_close(num):
    return bytes([(num << 4) | 0x0F]) if num < 15 else bytes([0xFF, num])


def tag_null():
    return b'\x00'


def tag_bool(v):
    return bytes([0x10 | (1 if v else 0)])


def tag_uint(v):
    b = _uint_bytes(v)
    return _tag_head(2, 0, len(b)) + b


def tag_int(v):
    n = 1
    while True:
        try:
            b = v.to_bytes(n, 'big', signed=True)
            break
        except OverflowError:
            n += 1
    return _tag_head(3, 0, len(b)) + b


def tag_real(v):
    return _tag_head(4, 0, 4) + struct.pack('!f', v)


def tag_octets(b):
    return _tag_head(6, 0, len(b)) + b


def tag_chars(s):
    b = b'\x00' + s.encode('utf-8')
    return _tag_head(7, 0, len(b)) + b


def tag_enum(v):
    b = _uint_bytes(v)
    return _tag_head(9, 0, len(b)) + b


def tag_objid(otype, inst):
    return _tag_head(12, 0, 4) + struct.pack('!L', (otype << 22) | inst)


def parse_tags(b):
    """Flat tag parser: list of (num, cls, kind, value-bytes) where kind is
    'open' / 'close' / 'prim'.  Raises Short on truncated input."""
    out = []
    i = 0
    n = len(b)
    while i < n:
        t = b[i]
        i += 1
        num = t >> 4
        cls = (t >> 3) & 1
        lvt = t & 7
        if num == 15:
            if i >= n:
                raise Short()
            num = b[i]
            i += 1
        if cls and lvt == 6:
            out.append((num, 1, 'open', b''))
            continue
        if cls and lvt == 7:
            out.append((num, 1, 'close', b''))
            continue
        if not cls and num == 1:
            out.append((1, 0, 'prim', bytes([lvt])))
            continue
        if lvt == 5:
            if i >= n:
                raise Short()
            lvt = b[i]
            i += 1
            if lvt == 254:
                if i + 2 > n:
                    raise Short()
                lvt = (b[i] << 8) | b[i + 1]
                i += 2
            elif lvt == 255:
                if i + 4 > n:
                    raise Short()
                lvt = struct.unpack('!L', b[i:i + 4])[0]
                i += 4
        if i + lvt > n:
            raise Short()
        out.append((num, cls, 'prim', bytes(b[i:i + lvt])))
        i += lvt
    return out


def octet_tag_overhead(n):
    """size of the application tag head of an octet string of n octets"""
    return len(_tag_head(6, 0, n))
