"""
bacsim.world -- discrete-event world: virtual clock, real bacpypes scheduler
and run_once loop, fault-injecting LAN fabric, event log and digest.
"""

import hashlib
import struct
from copy import deepcopy

from . import env
from .env import clock, tm, BudgetExceeded

import bacpypes.core as core
from bacpypes.task import FunctionTask
from bacpypes.vlan import Network, Node, IPNetwork, IPNode
from bacpypes.pdu import Address, LocalBroadcast

from . import wire


def H(*parts):
    """Stable 64-bit hash of the parts (ints, strs, bytes, tuples)."""
    h = hashlib.blake2b(digest_size=8)
    for p in parts:
        if isinstance(p, bytes):
            h.update(b'b' + p)
        else:
            h.update(repr(p).encode())
        h.update(b'\x00')
    return struct.unpack('!Q', h.digest())[0]


def U(*parts):
    """Stable uniform float in [0,1) derived from the parts."""
    return H(*parts) / 18446744073709551616.0


def addr_str(a):
    if isinstance(a, tuple):
        return '%s:%d' % a
    return str(a)


class FaultPlan:
    """Decides what happens to each frame.

    spec = {'mode': 'none'}
         | {'mode': 'explicit', 'list': [ {'ord': n | 'key': [...], 'kind': 'drop'|'dup'|'delay'|'corrupt', ...}, ...]}
         | {'mode': 'hashed', 'rates': {'drop': p, 'dup': p, 'delay': p}, 'delays': [...], 'gaps': [...],
            'roles': [..] | None, 'max': n | None, 'salt': int}
    """

    def __init__(self, spec, seed):
        self.spec = spec or {'mode': 'none'}
        self.seed = seed
        self.mode = self.spec.get('mode', 'none')
        self.by_ord = {}
        self.by_key = {}
        self.fired = []
        self.counts = {}
        if self.mode == 'explicit':
            for f in self.spec.get('list', []):
                if 'ord' in f:
                    self.by_ord.setdefault(f['ord'], []).append(f)
                else:
                    self.by_key.setdefault(tuple(f['key']), []).append(f)
        elif self.mode == 'hashed':
            self.rates = self.spec.get('rates', {})
            self.delays = self.spec.get('delays', [0.001])
            self.gaps = self.spec.get('gaps', [0.0])
            self.roles = self.spec.get('roles')
            self.max = self.spec.get('max')
            self.salt = self.spec.get('salt', 0)

    def decide(self, ordn, key, role):
        """Return list of fault dicts to apply to this frame (usually 0 or 1)."""
        if self.mode == 'none':
            return ()
        if self.mode == 'explicit':
            out = self.by_ord.get(ordn, ())
            k = self.by_key.get(key)
            if k:
                out = list(out) + k
            for f in out:
                self._fire(f, ordn, key, role)
            return out
        # hashed
        if self.roles is not None and role not in self.roles:
            return ()
        if self.max is not None and len(self.fired) >= self.max:
            return ()
        u = U(self.seed, self.salt, 'fault', key)
        acc = 0.0
        for kind in ('drop', 'dup', 'delay'):
            p = self.rates.get(kind, 0.0)
            if not p:
                continue
            acc += p
            if u < acc:
                f = {'kind': kind}
                if kind == 'delay':
                    f['d'] = self.delays[H(self.seed, self.salt, 'dly', key) % len(self.delays)]
                elif kind == 'dup':
                    f['gap'] = self.gaps[H(self.seed, self.salt, 'gap', key) % len(self.gaps)]
                self._fire(f, ordn, key, role)
                return (f,)
        return ()

    def _fire(self, f, ordn, key, role):
        g = dict(f)
        g.pop('ord', None)
        g['key'] = list(key)
        g['_ord'] = ordn
        g['_role'] = role
        self.fired.append(g)
        self.counts[f['kind']] = self.counts.get(f['kind'], 0) + 1

    def frozen(self):
        """Explicit plan equivalent to what fired in this run."""
        lst = []
        for g in self.fired:
            h = {k: v for k, v in g.items() if not k.startswith('_')}
            lst.append(h)
        return {'mode': 'explicit', 'list': lst}


def frame_role(octets, is_ip=False):
    """Coarse role of a frame by the harness' own decoders (for targeted
    fault placement and run signatures)."""
    b = octets
    if is_ip:
        v = wire.decode_bvll(b)
        if v is None:
            return 'garbage'
        if 'npdu' not in v:
            return 'bvll-' + v['name']
        b = v['npdu']
    n = wire.decode_npdu(b)
    if n is None:
        return 'garbage'
    if n['netmsg']:
        return 'nm-%d' % n['msg']
    a = wire.decode_apdu(n['apdu'])
    if a is None:
        return 'garbage'
    t = a['type']
    if t == wire.T_CONF:
        if not a['seg']:
            return 'conf'
        return 'conf-first' if a['seq'] == 0 else ('conf-seg' if a['mor'] else 'conf-last')
    if t == wire.T_CACK:
        if not a['seg']:
            return 'cack'
        return 'cack-first' if a['seq'] == 0 else ('cack-seg' if a['mor'] else 'cack-last')
    if t == wire.T_SEGACK:
        return 'segack-s' if a['srv'] else 'segack-c'
    if t == wire.T_ABORT:
        return 'abort-s' if a['srv'] else 'abort-c'
    return a['name']


class World:
    """One simulated run.  Construct after env.reset_process_state()."""

    def __init__(self, seed, faults=None, frame_cap=20000, tick_cap=400000,
                 latency=0.0, jitter=0.0, keep_wire=True):
        env.reset_process_state()
        self.seed = seed
        self.seq = 0
        self.events = []
        self.hash = hashlib.sha256()
        self.plan = FaultPlan(faults, seed)
        self.frames = 0
        self.frame_cap = frame_cap
        self.tick_cap = tick_cap
        self.latency = latency
        self.jitter = jitter
        self.wire = []          # delivered-to-fabric frames: dicts
        self.tx = []            # frames handed to a node by a stack (emission)
        self.rx = []            # frames delivered to a node
        self.keep_wire = keep_wire
        self.frame_seen = {}    # identity key prefix -> count
        self.delivering = None  # wire sequence number of the frame being delivered right now
        self.sched_viol = None  # first violation of "the scheduler's head is the earliest pending entry" (see run())
        self.networks = []
        self.budget_hit = None
        self.t0 = clock.now
        self.probes = {}
        self.listeners = []     # callables(frame dict) at fabric time
        self.tx_listeners = []  # callables(node, src, dst, octets, seq) at emission
        self.outcome_hooks = []  # callables(seq) right after an outcome was handed to an application
        self.outcome_tok_hooks = []  # callables(stack label, token) from INSIDE the application's outcome callback
        self.sim_seconds = 0.0
        self.max_delay_injected = 0.0
        self.total_delay_injected = 0.0
        clock.ticks = 0
        clock.tick_cap = tick_cap

    # -- logging -------------------------------------------------------
    def log(self, kind, *fields):
        self.seq += 1
        rec = (self.seq, round(clock.now - self.t0, 6), kind) + fields
        self.events.append(rec)
        self.hash.update(repr(rec).encode())
        return self.seq

    def probe(self, name, n=1):
        self.probes[name] = self.probes.get(name, 0) + n

    def digest(self):
        return self.hash.hexdigest()

    @property
    def now(self):
        return clock.now - self.t0

    # -- scheduling ----------------------------------------------------
    def at(self, t, fn, *args):
        """Run fn(*args) at virtual time t (relative to the run's start)."""
        task = FunctionTask(fn, *args)
        task.install_task(when=self.t0 + t)
        return task

    def after(self, d, fn, *args):
        task = FunctionTask(fn, *args)
        task.install_task(when=clock.now + d)
        return task

    def run(self, until=None):
        """Advance the world: real core.run_once() + clock jumps to the next
        heap entry, until the heap is empty or the next entry is later than
        ``until`` (relative seconds).  Returns 'quiescent' | 'horizon' |
        'budget'."""
        limit = None if until is None else self.t0 + until
        try:
            while True:
                core.run_once()
                if core.deferredFns:
                    continue
                if not tm.tasks:
                    res = 'quiescent'
                    break
                when = tm.tasks[0][0]
                if len(tm.tasks) > 2 and self.sched_viol is None:
                    # invariant of the scheduler, evaluated whenever virtual time is about to advance: the entry it will
                    # run next is the earliest one pending (otherwise some timer fires late by an unbounded amount)
                    m = min(tm.tasks)
                    if m[0] < when:
                        self.sched_viol = {'t': clock.now - self.t0, 'head_due_in': when - clock.now, 'earliest_due_in': m[0] - clock.now,
                                           'entries': len(tm.tasks), 'buried': type(m[2]).__name__}
                if limit is not None and when > limit:
                    res = 'horizon'
                    break
                if when > clock.now:
                    clock.now = when
        except BudgetExceeded as e:
            self.budget_hit = str(e)
            # drop whatever is pending so nothing leaks into the next run
            tm.tasks = []
            core.deferredFns = []
            res = 'budget'
        if limit is not None and res == 'horizon' and clock.now < limit:
            clock.now = limit
        self.sim_seconds = clock.now - self.t0
        return res

    def stall(self, d):
        """The loop makes no progress for d seconds (or: wall clock stepped
        forward by d).  Negative d = clock stepped backwards."""
        self.log('clock', 'jump', d)
        clock.now += d

    # -- fabric --------------------------------------------------------
    def new_network(self, name, ip=False):
        net = (SimIPNetwork if ip else SimNetwork)(self, name)
        self.networks.append(net)
        return net


class _FabricMixin:
    """Shared by SimNetwork and SimIPNetwork: sees every frame once at the
    instant the sending node's zero-delay task fires."""

    is_ip = False

    def _fabric_init(self, world, name):
        self.world = world
        self.lanname = name

    def process_pdu(self, pdu):
        w = self.world
        w.frames += 1
        if w.frames > w.frame_cap:
            raise BudgetExceeded('frame cap')
        octets = bytes(pdu.pduData)
        src = addr_str(pdu.pduSource)
        dst = addr_str(pdu.pduDestination)
        h = hashlib.sha1(octets).hexdigest()[:12]
        kp = (self.lanname, src, dst, h)
        k = w.frame_seen.get(kp, 0)
        w.frame_seen[kp] = k + 1
        key = kp + (k,)
        ordn = w.frames - 1
        role = frame_role(octets, self.is_ip)
        faults = w.plan.decide(ordn, key, role)
        acts = [f['kind'] for f in faults]
        seq = w.log('wire', self.lanname, src, dst, octets.hex(), '+'.join(acts))
        rec = {'seq': seq, 't': w.now, 'lan': self.lanname, 'src': src, 'dst': dst,
               'octets': octets, 'ord': ordn, 'key': key, 'role': role, 'faults': faults}
        if w.keep_wire:
            w.wire.append(rec)
        for fn in w.listeners:
            fn(rec)
        delay = w.latency
        if w.jitter:
            delay += w.jitter * U(w.seed, 'jit', key)
        copies = 1
        gap = 0.0
        for f in faults:
            kind = f['kind']
            if kind == 'drop':
                return
            elif kind == 'delay':
                delay += f['d']
                w.total_delay_injected += f['d']
                if f['d'] > w.max_delay_injected:
                    w.max_delay_injected = f['d']
            elif kind == 'dup':
                copies += f.get('n', 1)
                gap = f.get('gap', 0.0)
            elif kind == 'corrupt':
                pdu = deepcopy(pdu)
                pdu.pduData = bytearray(bytes.fromhex(f['octets']))
        for i in range(copies):
            d = delay + i * gap
            if d <= 0.0:
                self._deliver(pdu, seq)
            else:
                w.after(d, self._deliver, pdu, seq)

    def _deliver(self, pdu, wseq=None):
        # wseq: log sequence number at which this frame was put on the wire (None: injected by an adversary);
        # recorded with every reception so that oracles can tell a late network copy from a fresh frame
        w = self.world
        prev = w.delivering
        w.delivering = wseq
        try:
            self._real_process_pdu(pdu)
        finally:
            w.delivering = prev


class SimNetwork(_FabricMixin, Network):
    def __init__(self, world, name):
        Network.__init__(self, name=name, broadcast_address=LocalBroadcast())
        self._fabric_init(world, name)

    def _real_process_pdu(self, pdu):
        Network.process_pdu(self, pdu)


class SimIPNetwork(_FabricMixin, IPNetwork):
    is_ip = True

    def __init__(self, world, name):
        IPNetwork.__init__(self, name=name)
        self._fabric_init(world, name)

    def _real_process_pdu(self, pdu):
        IPNetwork.process_pdu(self, pdu)


class _NodeMixin:
    """Isolates one simulated device's exception from delivery to the others
    (separate devices are separate processes in reality), logs emissions."""

    dead = False
    muted = False
    world = None
    label = ''

    def response(self, pdu):
        if self.dead:
            return
        if self.muted:
            self.world.probe('muted_rx')
            return
        w = self.world
        seq = w.log('rx', self.label, addr_str(pdu.pduSource), bytes(pdu.pduData).hex())
        if w.keep_wire:
            w.rx.append({'seq': seq, 't': w.now, 'node': self.label, 'src': addr_str(pdu.pduSource),
                         'dst': addr_str(pdu.pduDestination), 'octets': bytes(pdu.pduData), 'wseq': w.delivering})
        try:
            self._real_response(pdu)
        except BudgetExceeded:
            raise
        except Exception as err:
            import traceback
            tb = traceback.extract_tb(err.__traceback__)
            where = tb[-1].name if tb else ''
            self.world.log('node_exc', self.label, type(err).__name__, where)
            self.world.probe('node_exc')
            env.errlog.records.append(('bacsim.node', type(err).__name__, where, str(err)[:40]))

    def indication(self, pdu):
        if self.dead or self.lan is None:
            return
        w = self.world
        if w is not None:
            src = pdu.pduSource if pdu.pduSource is not None else self.address
            seq = w.log('tx', self.label, addr_str(pdu.pduDestination), bytes(pdu.pduData).hex())
            rec = {'seq': seq, 't': w.now, 'node': self.label, 'src': addr_str(src),
                   'dst': addr_str(pdu.pduDestination), 'octets': bytes(pdu.pduData)}
            if w.keep_wire:
                w.tx.append(rec)
            for fn in w.tx_listeners:
                fn(rec)
            if self.muted:
                w.probe('muted_tx')
                return
        self._real_indication(pdu)

    def crash(self):
        if self.lan is not None:
            self.lan.remove_node(self)
        self.dead = True


class SimNode(_NodeMixin, Node):
    def __init__(self, world, label, addr, lan, **kw):
        self.world = world
        self.label = label
        Node.__init__(self, addr, lan, **kw)

    def _real_response(self, pdu):
        Node.response(self, pdu)

    def _real_indication(self, pdu):
        Node.indication(self, pdu)


class SimIPNode(_NodeMixin, IPNode):
    def __init__(self, world, label, addr, lan, **kw):
        self.world = world
        self.label = label
        IPNode.__init__(self, addr, lan, **kw)

    def _real_response(self, pdu):
        IPNode.response(self, pdu)

    def _real_indication(self, pdu):
        IPNode.indication(self, pdu)
