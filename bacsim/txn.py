"""
bacsim.txn -- the two-party (n clients, m servers, one LAN) transaction
scenario family shared by C04, C05, C11 and C12: executor that turns a JSON
run description into a recorded history.  Pure function of the description.
"""

from .env import clock, tm, errlog
from .world import World, addr_str
from .stacks import VlanStack, RawNode, TOK_BASE, payload, stack_timers
from . import wire

from bacpypes.pdu import Address
import bacpypes.core as core


class Req:
    __slots__ = ('tok', 'c', 's', 'rq', 'rs', 'slow', 'mode', 't', 'seq0', 'seq1', 'act0', 'act1',
                 'invoke', 'forced', 'exc', 'iocb', 'req', 'cancel_seq', 'cancel_t', 'peer', 'iotimeout')

    def __init__(self):
        for k in self.__slots__:
            setattr(self, k, None)


class History:
    pass


def default_horizon(desc):
    return desc.get('horizon', 50000.0)


def execute(desc):
    """Run one transaction world.  Returns a History."""
    seed = desc['seed']
    net = desc.get('net', {})
    caps = desc.get('caps', {})
    w = World(seed, faults=desc.get('faults'), frame_cap=caps.get('frames', 30000),
              tick_cap=caps.get('ticks', 600000), latency=net.get('latency', 0.0),
              jitter=net.get('jitter', 0.0))
    w.log('seed', seed)
    lan = w.new_network('lan')
    h = History()
    h.w = w
    h.desc = desc
    h.stacks = {}
    h.zombies = []
    h.cfgs = {}
    h.reqs = []
    h.by_tok = {}
    h.raws = {}
    h.timed_fired = []

    for cfg in desc['stacks']:
        if cfg.get('role') == 'raw':
            h.raws[cfg['name']] = RawNode(w, cfg['name'], cfg['addr'], lan,
                                          promiscuous=cfg.get('promiscuous', False),
                                          spoofing=cfg.get('spoofing', False))
            continue
        st = VlanStack(w, cfg, lan)
        _hook_app(h, st)
        h.stacks[cfg['name']] = st
        h.cfgs[cfg['name']] = cfg

    if desc.get('iam'):
        for name in sorted(h.stacks):
            st = h.stacks[name]
            w.at(0.0, st.app.i_am)

    for op in desc.get('ops', []):
        w.at(op['t'], _do_op, h, op)
    for tf in desc.get('timed', []):
        w.at(tf['t'], _do_timed, h, tf)

    h.result = w.run(until=default_horizon(desc))
    h.heap_left = stack_timers(tm.tasks)
    h.errors = list(errlog.records)
    # whatever is left must not leak into the next run
    tm.tasks = []
    core.deferredFns = []
    return h


def _hook_app(h, st):
    """Wrap the IOCB activation point so the history knows when a queued
    request became active and which invoke id it got."""
    app = st.app
    if hasattr(app, '_app_request'):
        orig = app._app_request

        def _app_request(apdu, _orig=orig, _st=st):
            w = h.w
            tok = getattr(apdu, 'serviceNumber', None)
            r = h.by_tok.get(tok)
            s0 = w.log('activate', _st.name, tok)
            if r is not None and r.act0 is None:
                r.act0 = s0
            try:
                _orig(apdu)
            finally:
                s1 = w.log('activated', _st.name, tok, apdu.apduInvokeID)
                if r is not None and r.act1 is None:
                    r.act1 = s1
                    r.invoke = apdu.apduInvokeID
        app._app_request = _app_request


def _do_op(h, op):
    w = h.w
    kind = op['op']
    if kind == 'req':
        c = h.stacks[op['c']]
        scfg = h.cfgs.get(op['s']) or next(x for x in h.desc['stacks'] if x['name'] == op['s'])
        r = Req()
        r.tok = op['tok']
        r.c = op['c']
        r.s = op['s']
        r.rq = op['rq']
        r.rs = op['rs']
        r.slow = op.get('slow', 0.0)
        r.mode = c.cfg.get('mode', 'direct')
        r.forced = op.get('invoke')
        r.peer = str(Address(scfg['addr']))
        r.t = w.now
        h.reqs.append(r)
        h.by_tok[r.tok] = r
        if op['s'] in h.stacks:
            h.stacks[op['s']].app.resp_plan[r.tok] = (r.rs, r.slow)
        req = c.app.make_request(scfg['addr'], r.tok, r.rq, r.forced)
        r.req = req
        r.seq0 = w.log('submit', r.c, r.s, r.tok, r.rq, r.rs, r.mode, r.forced)
        try:
            if r.mode == 'iocb':
                r.iocb = c.app.submit_iocb(req, r.tok)
                if op.get('iotimeout') is not None:
                    r.iotimeout = op['iotimeout']
                    r.iocb.set_timeout(op['iotimeout'])
                c.app.request_io(r.iocb)
            else:
                r.act0 = r.seq0
                c.app.request(req)
        except Exception as e:
            r.exc = type(e).__name__ + ':' + str(e)[:60]
        if r.mode != 'iocb':
            r.invoke = req.apduInvokeID
        r.seq1 = w.log('submitted', r.c, r.tok, r.invoke, r.exc)
        if r.mode != 'iocb':
            r.act1 = r.seq1
    elif kind == 'cancel':
        r = h.by_tok.get(op['tok'])
        if r is not None and r.iocb is not None and r.cancel_seq is None:
            if not r.iocb.ioComplete.isSet():
                r.cancel_seq = w.log('cancel', r.c, r.tok)
                r.cancel_t = w.now
                w.probe('cancel_live')
                r.iocb.abort(RuntimeError('cancelled'))
    elif kind == 'raw':
        # adversary frame: {'op':'raw','node':..,'dst':..,'src':..,'npdu':hex}
        raw = h.raws[op['node']]
        w.log('rawtx', op['node'], str(op['dst']), str(op.get('src')), op['octets'])
        raw.send(bytes.fromhex(op['octets']), op['dst'], op.get('src'))
    else:
        raise ValueError(kind)


def _do_timed(h, tf):
    w = h.w
    kind = tf['kind']
    h.timed_fired.append((w.seq, w.now, kind, tf.get('node')))
    if kind in ('stall', 'jump'):
        w.probe('stall' if tf['d'] >= 0 else 'jump_back')
        w.stall(tf['d'])
    elif kind == 'crash':
        st = h.stacks.get(tf['node'])
        if st is not None and not st.node.dead:
            w.log('crash', tf['node'])
            w.probe('crash')
            st.crash()
            h.zombies.append(st)
    elif kind == 'restart':
        st = h.stacks.get(tf['node'])
        if st is not None and st.node.dead:
            w.log('restart', tf['node'])
            w.probe('restart')
            new = VlanStack(w, st.cfg, st.lan)
            new.app.resp_plan = dict(st.app.resp_plan)
            _hook_app(h, new)
            h.stacks[tf['node']] = new
    elif kind == 'silence':
        st = h.stacks.get(tf['node'])
        if st is not None:
            w.log('silence', tf['node'])
            w.probe('silence')
            st.node.muted = True
    elif kind == 'heal':
        st = h.stacks.get(tf['node'])
        if st is not None:
            w.log('heal', tf['node'])
            st.node.muted = False
    else:
        raise ValueError(kind)


# ---------------------------------------------------------------------------
# helpers for oracles

def decode_lan_frame(octets):
    """(npdu dict, apdu dict|None) using the harness' own decoders."""
    n = wire.decode_npdu(octets)
    if n is None or n['netmsg']:
        return n, None
    return n, wire.decode_apdu(n['apdu'])


def outcomes_of(h, r):
    """Outcome events delivered to the client application for request r:
    list of (seq, t, kind, detail, data)."""
    c = h.stacks[r.c] if r.c in h.stacks else None
    out = []
    if r.mode == 'iocb':
        for st in [h.stacks[r.c]] + [z for z in h.zombies if z.name == r.c]:
            for (seq, t, tok, kind, detail, data, ncb) in st.app.iocb_done:
                if tok == r.tok:
                    out.append((seq, t, kind, detail, data))
        return out
    if r.invoke is None:
        return out
    # next request of the same client with the same (peer, invoke)
    nxt = None
    for q in h.reqs:
        if q is not r and q.c == r.c and q.mode != 'iocb' and q.peer == r.peer and q.invoke == r.invoke \
                and q.seq0 > r.seq0 and q.exc is None:
            if nxt is None or q.seq0 < nxt:
                nxt = q.seq0
    for st in [h.stacks[r.c]] + [z for z in h.zombies if z.name == r.c]:
        for (seq, t, peer, inv, kind, detail, data) in st.app.confs:
            if peer == r.peer and inv == r.invoke and seq > r.seq0 and (nxt is None or seq < nxt):
                out.append((seq, t, kind, detail, data))
    out.sort()
    return out


def seg_count(n, seg):
    if n <= 0:
        return 1
    return (n + seg - 1) // seg


def pt_service_len(n):
    """Encoded length of the service parameters of a private transfer
    request / ack carrying an n-octet OctetString (token fixed at 4 octets)."""
    base = 2 + 5     # vendorID 999 (ctx0, 2 octets value -> 3) ...
    # vendorID 999 -> context tag 0, 2 octets: 1+2 = 3 ; serviceNumber 4 octets: 1+4 = 5
    base = 3 + 5
    if n <= 0:
        return base
    return base + 1 + wire.octet_tag_overhead(n) + n + 1
