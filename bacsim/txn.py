"""
bacsim.txn -- the two-party (n clients, m servers, one LAN) transaction
scenario family shared by C04, C05, C11 and C12: executor that turns a JSON
run description into a recorded history.  Pure function of the description.
"""

from .env import clock, tm, errlog
from .world import World, addr_str, H
from .stacks import VlanStack, RawNode, TOK_BASE, payload, stack_timers
from . import wire

from bacpypes.pdu import Address
import bacpypes.core as core


class Req:
    __slots__ = ('tok', 'c', 's', 'rq', 'rs', 'slow', 'mode', 't', 'seq0', 'seq1', 'act0', 'act1',
                 'invoke', 'forced', 'exc', 'iocb', 'req', 'cancel_seq', 'cancel_t', 'peer', 'iotimeout')

    def __init__(self):
        for k in self.__slots__:
            setattr(self, k, None)


class History:
    pass


def default_horizon(desc):
    return desc.get('horizon', 50000.0)


def execute(desc):
    """Run one transaction world.  Returns a History."""
    seed = desc['seed']
    net = desc.get('net', {})
    caps = desc.get('caps', {})
    w = World(seed, faults=desc.get('faults'), frame_cap=caps.get('frames', 30000),
              tick_cap=caps.get('ticks', 600000), latency=net.get('latency', 0.0),
              jitter=net.get('jitter', 0.0))
    w.log('seed', seed)
    lan = w.new_network('lan')
    h = History()
    h.w = w
    h.desc = desc
    h.stacks = {}
    h.zombies = []
    h.cfgs = {}
    h.reqs = []
    h.by_tok = {}
    h.raws = {}
    h.timed_fired = []

    for cfg in desc['stacks']:
        if cfg.get('role') == 'raw':
            h.raws[cfg['name']] = RawNode(w, cfg['name'], cfg['addr'], lan,
                                          promiscuous=cfg.get('promiscuous', False),
                                          spoofing=cfg.get('spoofing', False))
            continue
        st = VlanStack(w, cfg, lan)
        _hook_app(h, st)
        h.stacks[cfg['name']] = st
        h.cfgs[cfg['name']] = cfg

    if desc.get('adversary'):
        h.adversary = Adversary(h, lan, desc['adversary'])

    # invariant evaluated while the run proceeds: right after every outcome (same virtual instant, after the stack has
    # unwound) no FINISHED transaction state machine may still sit in the scheduler
    h.timer_residue = []
    w.outcome_hooks.append(lambda seq: w.after(0.0, _inspect_timers, h, seq))
    # follow-up requests an application submits from INSIDE its outcome callback
    h.chains = {}
    w.outcome_tok_hooks.append(lambda label, tok: _chain(h, label, tok))

    if desc.get('iam'):
        for name in sorted(h.stacks):
            st = h.stacks[name]
            w.at(0.0, st.app.i_am)

    # the applications' own timers (housekeeping): idle entries of mixed magnitude that shape the scheduler's heap
    for t_hk in desc.get('housekeeping', []):
        w.at(t_hk, _noop)
    for op in desc.get('ops', []):
        w.at(op['t'], _do_op, h, op)
    for tf in desc.get('timed', []):
        w.at(tf['t'], _do_timed, h, tf)

    h.result = w.run(until=default_horizon(desc))
    h.heap_left = stack_timers(tm.tasks)
    h.errors = list(errlog.records)
    # whatever is left must not leak into the next run
    tm.tasks = []
    core.deferredFns = []
    return h


def _noop():
    pass


def _chain(h, label, tok):
    op = h.chains.pop(tok, None)
    if op is not None and op['c'] == label:
        h.w.probe('chained_request')
        _do_op(h, op)


def _inspect_timers(h, seq):
    from bacpypes.appservice import SSM, COMPLETED, ABORTED
    w = h.w
    for (when, n, task) in tm.tasks:
        if isinstance(task, SSM) and task.state in (COMPLETED, ABORTED):
            h.timer_residue.append({'seq': seq, 't': w.now, 'cls': type(task).__name__, 'state': SSM.transactionLabels[task.state],
                                    'due_in': when - w.now, 'peer': addr_str(task.pdu_address), 'invoke': task.invokeID})
    w.probe('timer_invariant_checked')


def _hook_app(h, st):
    """Wrap the IOCB activation point so the history knows when a queued
    request became active and which invoke id it got."""
    app = st.app
    if hasattr(app, '_app_request'):
        orig = app._app_request

        def _app_request(apdu, _orig=orig, _st=st):
            w = h.w
            tok = getattr(apdu, 'serviceNumber', None)
            r = h.by_tok.get(tok)
            s0 = w.log('activate', _st.name, tok)
            if r is not None and r.act0 is None:
                r.act0 = s0
            try:
                _orig(apdu)
            finally:
                s1 = w.log('activated', _st.name, tok, apdu.apduInvokeID)
                if r is not None and r.act1 is None:
                    r.act1 = s1
                    r.invoke = apdu.apduInvokeID
        app._app_request = _app_request


def _do_op(h, op):
    w = h.w
    kind = op['op']
    if kind == 'req':
        c = h.stacks[op['c']]
        scfg = h.cfgs.get(op['s']) or next(x for x in h.desc['stacks'] if x['name'] == op['s'])
        r = Req()
        r.tok = op['tok']
        r.c = op['c']
        r.s = op['s']
        r.rq = op['rq']
        r.rs = op['rs']
        r.slow = op.get('slow', 0.0)
        r.mode = c.cfg.get('mode', 'direct')
        r.forced = op.get('invoke')
        r.peer = str(Address(scfg['addr']))
        r.t = w.now
        h.reqs.append(r)
        h.by_tok[r.tok] = r
        if op.get('chain'):
            h.chains[r.tok] = op['chain']
        if op['s'] in h.stacks:
            h.stacks[op['s']].app.resp_plan[r.tok] = (r.rs, r.slow)
        req = c.app.make_request(scfg['addr'], r.tok, r.rq, r.forced)
        r.req = req
        r.seq0 = w.log('submit', r.c, r.s, r.tok, r.rq, r.rs, r.mode, r.forced)
        try:
            if r.mode == 'iocb':
                r.iocb = c.app.submit_iocb(req, r.tok)
                if op.get('iotimeout') is not None:
                    r.iotimeout = op['iotimeout']
                    r.iocb.set_timeout(op['iotimeout'])
                c.app.request_io(r.iocb)
            else:
                r.act0 = r.seq0
                c.app.request(req)
        except Exception as e:
            r.exc = type(e).__name__ + ':' + str(e)[:60]
        if r.mode != 'iocb':
            r.invoke = req.apduInvokeID
        r.seq1 = w.log('submitted', r.c, r.tok, r.invoke, r.exc)
        if r.mode != 'iocb':
            r.act1 = r.seq1
    elif kind == 'cancel':
        r = h.by_tok.get(op['tok'])
        if r is not None and r.iocb is not None and r.cancel_seq is None:
            if not r.iocb.ioComplete.isSet():
                r.cancel_seq = w.log('cancel', r.c, r.tok)
                r.cancel_t = w.now
                w.probe('cancel_live')
                r.iocb.abort(RuntimeError('cancelled'))
    elif kind == 'raw':
        # adversary frame: {'op':'raw','node':..,'dst':..,'src':..,'npdu':hex}
        raw = h.raws[op['node']]
        w.log('rawtx', op['node'], str(op['dst']), str(op.get('src')), op['octets'])
        raw.send(bytes.fromhex(op['octets']), op['dst'], op.get('src'))
    elif kind == 'unconf':
        # the client application sends an UNCONFIRMED request straight to a peer (nobody owes anybody anything for it)
        c = h.stacks.get(op['c'])
        if c is not None and not c.node.dead:
            from bacpypes.apdu import UnconfirmedPrivateTransferRequest
            scfg = h.cfgs.get(op['s']) or next(x for x in h.desc['stacks'] if x['name'] == op['s'])
            u = UnconfirmedPrivateTransferRequest(vendorID=999, serviceNumber=op.get('n', 1))
            u.pduDestination = Address(scfg['addr'])
            w.log('unconf', op['c'], op['s'])
            w.probe('unconf_sent')
            try:
                c.app.request(u)
            except Exception as e:
                w.log('unconf_exc', op['c'], type(e).__name__)
    elif kind == 'iam':
        # a real stack announces itself (again)
        st = h.stacks.get(op['node'])
        if st is not None and not st.node.dead:
            w.log('iamtx', op['node'])
            st.app.i_am()
    else:
        raise ValueError(kind)


def _do_timed(h, tf):
    w = h.w
    kind = tf['kind']
    h.timed_fired.append((w.seq, w.now, kind, tf.get('node')))
    if kind in ('stall', 'jump'):
        w.probe('stall' if tf['d'] >= 0 else 'jump_back')
        w.stall(tf['d'])
    elif kind == 'crash':
        st = h.stacks.get(tf['node'])
        if st is not None and not st.node.dead:
            w.log('crash', tf['node'])
            w.probe('crash')
            st.crash()
            h.zombies.append(st)
    elif kind == 'restart':
        st = h.stacks.get(tf['node'])
        if st is not None and st.node.dead:
            w.log('restart', tf['node'])
            w.probe('restart')
            new = VlanStack(w, st.cfg, st.lan)
            new.app.resp_plan = dict(st.app.resp_plan)
            _hook_app(h, new)
            h.stacks[tf['node']] = new
    elif kind == 'silence':
        st = h.stacks.get(tf['node'])
        if st is not None:
            w.log('silence', tf['node'])
            w.probe('silence')
            st.node.muted = True
    elif kind == 'heal':
        st = h.stacks.get(tf['node'])
        if st is not None:
            w.log('heal', tf['node'])
            st.node.muted = False
    else:
        raise ValueError(kind)


# ---------------------------------------------------------------------------
# helpers for oracles

def decode_lan_frame(octets):
    """(npdu dict, apdu dict|None) using the harness' own decoders."""
    n = wire.decode_npdu(octets)
    if n is None or n['netmsg']:
        return n, None
    return n, wire.decode_apdu(n['apdu'])


def _build_outcome_index(h):
    """Post-run index: attribute every confirmation / IOCB callback to a
    request.  Direct mode: by (client, peer, invoke id) and submit order."""
    idx = {}
    by_key = {}
    for r in h.reqs:
        idx[id(r)] = []
        if r.mode != 'iocb' and r.invoke is not None and r.exc is None:
            by_key.setdefault((r.c, r.peer, r.invoke), []).append(r)
    for lst in by_key.values():
        lst.sort(key=lambda q: q.seq0)
    names = set(h.stacks) | set(z.name for z in h.zombies)
    for name in names:
        sts = ([h.stacks[name]] if name in h.stacks else []) + [z for z in h.zombies if z.name == name and z is not h.stacks.get(name)]
        for st in sts:
            for (seq, t, peer, inv, kind, detail, data) in st.app.confs:
                lst = by_key.get((name, peer, inv))
                if not lst:
                    continue
                owner = None
                for q in lst:
                    if q.seq0 < seq:
                        owner = q
                    else:
                        break
                if owner is not None:
                    idx[id(owner)].append((seq, t, kind, detail, data))
            for (seq, t, tok, kind, detail, data, ncb) in st.app.iocb_done:
                r = h.by_tok.get(tok)
                if r is not None and r.mode == 'iocb':
                    idx[id(r)].append((seq, t, kind, detail, data))
    for v in idx.values():
        v.sort(key=lambda o: o[0])
    return idx


def outcomes_of(h, r):
    """Outcome events delivered to the client application for request r:
    list of (seq, t, kind, detail, data).  Post-run only."""
    idx = getattr(h, '_out_index', None)
    if idx is None or getattr(h, '_out_index_n', None) != (len(h.reqs), h.w.seq):
        idx = _build_outcome_index(h)
        h._out_index = idx
        h._out_index_n = (len(h.reqs), h.w.seq)
    return idx.get(id(r), [])


def seg_count(n, seg):
    if n <= 0:
        return 1
    return (n + seg - 1) // seg


def pt_service_len(n):
    """Encoded length of the service parameters of a private transfer
    request / ack carrying an n-octet OctetString (token fixed at 4 octets)."""
    base = 2 + 5     # vendorID 999 (ctx0, 2 octets value -> 3) ...
    # vendorID 999 -> context tag 0, 2 octets: 1+2 = 3 ; serviceNumber 4 octets: 1+4 = 5
    base = 3 + 5
    if n <= 0:
        return base
    return base + 1 + wire.octet_tag_overhead(n) + n + 1


# ---------------------------------------------------------------------------
# adversary (C11): a promiscuous station that injects replies / acks / aborts /
# requests with live invoke ids from a foreign address, wrong ids from the
# right address, and replays genuine replies after completion.  Its frames
# bypass the fault plan and the frame-identity counters so that the same
# description without the adversary is an exact differential baseline.

from .world import U
from bacpypes.pdu import PDU

ADV_ADDR = 99
ADV_TOK = 0x7f000000


class Adversary:
    def __init__(self, h, lan, spec):
        self.h = h
        self.lan = lan
        self.spec = spec
        self.rate = spec.get('rate', 0.2)
        self.kinds = spec.get('kinds', ['foreign-reply', 'wrong-id-reply', 'late-replay', 'foreign-to-server', 'foreign-request'])
        self.salt = spec.get('salt', 0)
        self.delays = spec.get('delays', [0.0, 0.001, 1.0])
        self.n = 0
        self.addr_of = {}
        for cfg in h.desc['stacks']:
            self.addr_of[str(Address(cfg['addr']))] = cfg
        h.w.listeners.append(self.on_frame)

    def on_frame(self, rec):
        w = self.h.w
        if rec['src'] not in self.addr_of or rec['dst'] not in self.addr_of:
            return
        u = U(w.seed, self.salt, 'adv', rec['key'])
        if u >= self.rate:
            return
        n, a = decode_lan_frame(rec['octets'])
        if a is None or 'invoke' not in a:
            return
        hh = H(w.seed, self.salt, 'advk', rec['key'])
        kind = self.kinds[hh % len(self.kinds)]
        d = self.delays[(hh >> 8) % len(self.delays)]
        variant = (hh >> 16) % 6
        src_cfg = self.addr_of[rec['src']]
        dst_cfg = self.addr_of[rec['dst']]
        inv = a['invoke']
        t = a['type']
        to_server = t == wire.T_CONF or (t in (wire.T_SEGACK, wire.T_ABORT) and not a.get('srv'))
        if kind == 'late-replay':
            if to_server or t == wire.T_SEGACK or (t == wire.T_CACK and a['seg']):
                return
            d = self.spec.get('replay_delays', [3.0, 10.0, 40.0])[(hh >> 8) % 3]
            w.after(d, self._replay, rec['src'], rec['dst'], inv, rec['octets'])
            return
        if kind in ('foreign-reply', 'wrong-id-reply'):
            if not to_server:
                return
            client, server = rec['src'], rec['dst']
            w.after(d, self._fake_reply, kind, client, server, inv, variant) if d > 0 else self._fake_reply(kind, client, server, inv, variant)
        elif kind == 'foreign-to-server':
            if not to_server:
                return
            server = rec['dst']
            apdu = [wire.abort_pdu(inv, 0, srv=False), wire.segment_ack(inv, 0, 1, srv=False),
                    wire.segment_ack(inv, 3, 4, nak=True, srv=False)][variant % 3]
            self._send(str(ADV_ADDR), server, wire.encode_npdu(apdu), d, 'foreign-to-server')
        elif kind == 'foreign-request':
            if t != wire.T_CONF:
                return
            server = rec['dst']
            self.n += 1
            data = wire.ctx_uint(0, 999) + wire.ctx_uint(1, ADV_TOK + self.n)
            apdu = wire.conf_req(inv, 18, data, maxsegs=0, maxresp=5)
            self._send(str(ADV_ADDR), server, wire.encode_npdu(apdu, der=True), d, 'foreign-request')

    def _live_ids(self, client, server):
        """ids the client stack currently tracks toward that server (read-only
        probe of the stack; used for adversary decisions, never by an oracle)"""
        live = set()
        for name, st in self.h.stacks.items():
            if str(st.address) == client:
                for tr in st.smap.clientTransactions:
                    if str(tr.pdu_address) == server:
                        live.add(tr.invokeID)
        return live

    def _fake_reply(self, kind, client, server, inv, variant):
        w = self.h.w
        if kind == 'foreign-reply':
            src = str(ADV_ADDR)
            use = inv
        else:
            src = server
            live = self._live_ids(client, server)
            use = (inv + 128) % 256
            for _ in range(256):
                if use not in live:
                    break
                use = (use + 1) % 256
            else:
                # every one of the 256 ids is live toward that server: there is no wrong id to fake
                w.probe('adv.no_free_id')
                return
        data = wire.ctx_uint(0, 999) + wire.ctx_uint(1, ADV_TOK)
        apdu = [wire.simple_ack(use, 18), wire.complex_ack(use, 18, data), wire.error_pdu(use, 18, 0, 0),
                wire.abort_pdu(use, 0, srv=True), wire.reject_pdu(use, 0), wire.segment_ack(use, 0, 1, srv=True)][variant]
        self._send(src, client, wire.encode_npdu(apdu), 0.0, kind)

    def _replay(self, server, client, inv, octets):
        h = self.h
        w = h.w
        # only when the transaction it belonged to is over and the id is not live again
        if inv in self._live_ids(client, server):
            w.probe('adv.replay_skipped')
            return
        self._send(server, client, octets, 0.0, 'late-replay')

    def _send(self, src, dst, octets, d, kind):
        w = self.h.w
        pdu = PDU(octets, source=Address(int(src)), destination=Address(int(dst)))

        def deliver():
            w.log('adv', kind, src, dst, bytes(octets).hex())
            w.probe('adv.' + kind)
            self.lan._deliver(pdu)
        if d > 0:
            w.after(d, deliver)
        else:
            deliver()
