#!/bin/bash
# Offline setup: nothing to install (stdlib only).  Verifies the interpreter,
# that bacpypes imports from the working tree, and creates output directories.
set -e
cd "$(dirname "$0")"
mkdir -p evidence replays
[ -x /venv/bin/python ] || { echo "missing /venv/bin/python"; exit 1; }
SRC="${BACPYPES_SRC:-/repo/py34}"
PYTHONPATH="$PWD:$SRC" /venv/bin/python -B -c "
import bacsim.env as e, bacpypes, sys
print('bacpypes from', bacpypes.__file__, 'python', sys.version.split()[0])
"
echo setup ok
