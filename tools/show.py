#!/usr/bin/env python3
"""Debug helper: run one generated description (or a replay file) and print
its event log.  usage: show.py <prop> <generator> <idx> | show.py <prop> --replay file"""
import sys, json, importlib, os
sys.path.insert(0, os.path.dirname(os.path.dirname(os.path.abspath(__file__))))
mod = importlib.import_module('bacsim.props.' + sys.argv[1].lower())
if sys.argv[2] == '--replay':
    desc = json.load(open(sys.argv[3]))['desc']
else:
    desc = getattr(mod, sys.argv[2])(int(os.environ.get('VERIF_SEED', 0)), int(sys.argv[3]))
print(json.dumps(desc)[:3000])
from bacsim import txn, wire
if hasattr(mod, 'debug_execute'):
    h = mod.debug_execute(desc)
else:
    h = txn.execute(desc)
kinds = set(os.environ.get('SHOW', 'tx,ind,resp,conf,iocb,submit,cancel,crash,restart,clock,node_exc,silence,wire').split(','))
for e in h.w.events:
    if e[2] not in kinds: continue
    if e[2] == 'wire' and not e[7]: continue
    extra = ''
    if e[2] == 'tx':
        n, a = txn.decode_lan_frame(bytes.fromhex(e[5]))
        if a: extra = ' '.join('%s=%s' % (k, v) for k, v in a.items() if k in ('name','seg','mor','seq','win','invoke','nak','srv','reason'))
    print(e[0], '%.4f' % e[1], e[2], [str(x)[:28] for x in e[3:]], extra)
print('result', h.result, 'errors', h.errors)
for v in mod.check(h): print('VIOL', v['clause'], v['detail'])
