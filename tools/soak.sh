#!/bin/bash
# usage: tools/soak.sh <tier> <seed> [props...]   -- runs the checks one after another, prints one summary line each
tier=$1; seed=$2; shift 2
props=${@:-C04 C05 C06 C10 C11 C12 C13 C14 C15 C16 C17 C19 C20}
cd "$(dirname "$0")/.."
export VERIF_EVIDENCE_DIR=${VERIF_EVIDENCE_DIR:-$PWD/soak_evidence} VERIF_REPLAY_DIR=${VERIF_REPLAY_DIR:-$PWD/soak_replays}
mkdir -p "$VERIF_EVIDENCE_DIR" "$VERIF_REPLAY_DIR"
for p in $props; do
  out=$(VERIF_SEED=$seed ./check $p --tier $tier 2>&1); rc=$?
  echo "$out" | grep -E "VIOLATION|clause=|HARNESS|KNOWN" | head -20
  echo "$out" | tail -1
  echo "== $p tier=$tier seed=$seed exit=$rc"
done
