#!/usr/bin/env python3
"""
Seeded-breakage bookkeeping.

  seeded.py import <src_dir>      verify a sub-agent's change myself in a scratch worktree of /repo (patch applies, suite still
                                  passes, demo fails with / passes without) and copy it to /verif/seeded/<id>/ with meta.json
  seeded.py run [<id> ...]        run the property's quick check against each kept change (scratch copy of /repo/py34 with the
                                  patch applied, BACPYPES_SRC) and record CAUGHT / MISSED in /verif/seeded/<id>/meta.json
  seeded.py run --in-repo [...]   same, but literally `git -C /repo apply`, check, `git -C /repo checkout -- .`
  seeded.py table                 print the table for DESIGN.md
"""

import os
import re
import sys
import json
import shutil
import subprocess
import tempfile

VERIF = os.path.dirname(os.path.dirname(os.path.abspath(__file__)))
SEEDED = os.path.join(VERIF, 'seeded')
PY = '/venv/bin/python'


def sh(cmd, cwd=None, env=None, timeout=1800):
    r = subprocess.run(cmd, shell=True, cwd=cwd, env=env, capture_output=True, text=True, timeout=timeout)
    return r.returncode, r.stdout + r.stderr


def do_import(src):
    sid = os.path.basename(os.path.normpath(src))
    prop = sid.split('-')[0]
    wt = tempfile.mkdtemp(prefix='seedverify_', dir='/tmp')
    os.rmdir(wt)
    rc, out = sh('git -C /repo worktree add -q %s HEAD' % wt)
    if rc:
        print('worktree failed', out)
        return 1
    try:
        patch = os.path.join(src, 'patch.diff')
        demo = os.path.join(src, 'demo.py')
        envv = dict(os.environ)
        envv['PYTHONPATH'] = '%s/py34:%s' % (wt, wt)
        # the demos were written for /tmp/seedwt/<prop>; run a copy with paths rewritten to this worktree
        os.makedirs(os.path.join(wt, 'seeded', sid), exist_ok=True)
        dsrc = open(demo).read()
        dsrc2 = re.sub(r'/tmp/seedwt2?/%s' % prop, wt, dsrc)
        open(os.path.join(wt, 'seeded', sid, 'demo.py'), 'w').write(dsrc2)
        demo_cmd = 'cd %s && %s -B seeded/%s/demo.py' % (wt, PY, sid)
        rc0, out0 = sh(demo_cmd, env=envv, timeout=600)
        rc, out = sh('git apply --check %s && git apply %s' % (patch, patch), cwd=wt)
        if rc:
            print(sid, 'PATCH DOES NOT APPLY', out[-500:])
            return 1
        rct, outt = sh('%s -B -m pytest -q -p no:cacheprovider -n 8 2>&1 | tail -3' % PY, cwd=wt, env=envv, timeout=1800)
        passed = re.search(r'(\d+) passed', outt)
        failed = re.search(r'(\d+) failed', outt)
        rc1, out1 = sh(demo_cmd, env=envv, timeout=600)
        files = sh('git diff --stat | tail -1', cwd=wt)[1].strip()
        changed = sh('git diff --name-only', cwd=wt)[1].split()
        sh('git checkout -- .', cwd=wt)
        ok = (rc0 == 0 and rc1 != 0 and passed and int(passed.group(1)) >= 405 and not failed)
        print('%s demo clean=%d patched=%d suite=%s %s' % (sid, rc0, rc1, outt.strip().splitlines()[-1] if outt.strip() else '?', 'KEEP' if ok else 'REJECT'))
        if not ok:
            print('   clean-run output tail:', out0[-300:].replace('\n', ' | '))
            print('   patched-run output tail:', out1[-300:].replace('\n', ' | '))
            return 1
        dst = os.path.join(SEEDED, sid)
        os.makedirs(dst, exist_ok=True)
        shutil.copy(patch, os.path.join(dst, 'patch.diff'))
        open(os.path.join(dst, 'demo.py'), 'w').write(dsrc)
        if os.path.exists(os.path.join(src, 'notes.md')):
            shutil.copy(os.path.join(src, 'notes.md'), os.path.join(dst, 'notes.md'))
        notes = open(os.path.join(src, 'notes.md')).read() if os.path.exists(os.path.join(src, 'notes.md')) else ''
        meta = {
            'id': sid, 'property': prop, 'files_changed': changed, 'diffstat': files,
            'source': 'independent sub-agent given only the property record and its own scratch worktree (nothing from /verif)',
            'needs_to_manifest': _first_para(notes, ('need', 'manifest', 'trigger')),
            'breaks': _first_para(notes, ('break', 'clause', 'violat')),
            'verified_by_me': {
                'how': 'fresh scratch worktree of /repo HEAD under /tmp: demo on clean tree, git apply patch.diff, full suite with PYTHONPATH=<wt>/py34, demo again, git checkout',
                'demo_exit_clean_tree': rc0, 'demo_exit_patched_tree': rc1, 'suite_with_patch': outt.strip().splitlines()[-1] if outt.strip() else '',
                'demo_output_patched_tail': out1[-600:],
                'note': 'demo.py contains the absolute path of the worktree it was written in (/tmp/seedwt/%s or /tmp/seedwt2/%s); substitute the path of the tree under test' % (prop, prop),
            },
            'my_checks': {},
        }
        old = os.path.join(dst, 'meta.json')
        if os.path.exists(old):
            try:
                meta['my_checks'] = json.load(open(old)).get('my_checks', {})
            except Exception:
                pass
        json.dump(meta, open(old, 'w'), indent=1)
        return 0
    finally:
        sh('git -C /repo worktree remove --force %s' % wt)


def _first_para(notes, keys):
    paras = [p.strip() for p in re.split(r'\n\s*\n', notes) if p.strip()]
    for p in paras:
        low = p.lower()
        if any(k in low for k in keys) and len(p) > 40:
            return re.sub(r'\s+', ' ', p)[:700]
    return re.sub(r'\s+', ' ', paras[0])[:700] if paras else ''


def do_run(ids, in_repo=False, tier='quick', budget=None, extra_props=None, seed=None):
    ids = ids or sorted(os.listdir(SEEDED))
    rcsum = 0
    for sid in ids:
        d = os.path.join(SEEDED, sid)
        if not os.path.exists(os.path.join(d, 'patch.diff')):
            continue
        meta = json.load(open(os.path.join(d, 'meta.json')))
        props = [meta['property']] + list(extra_props or [])
        tmp = tempfile.mkdtemp(prefix='seedrun_', dir='/tmp')
        try:
            envv = dict(os.environ)
            envv.update({'VERIF_EVIDENCE_DIR': os.path.join(tmp, 'evidence'), 'VERIF_REPLAY_DIR': os.path.join(tmp, 'replays'), 'VERIF_MINIMISE_S': '30'})
            if budget:
                envv['VERIF_BUDGET_S'] = str(budget)
            if seed is not None:
                envv['VERIF_SEED'] = str(seed)
            if in_repo:
                rc, out = sh('git -C /repo apply %s' % os.path.join(d, 'patch.diff'))
                if rc:
                    print(sid, 'apply failed', out)
                    continue
            else:
                dst = os.path.join(tmp, 'py34')
                # the committed tree (not the working tree: an --in-repo pass may have a patch applied there right now)
                rc, out = sh('git -C /repo archive HEAD py34 | tar -x -C %s' % tmp)
                if rc:
                    print(sid, 'archive failed', out[-300:])
                    continue
                rc, out = sh('cd %s && git init -q . && git apply --directory=. -p1 %s' % (tmp, os.path.join(d, 'patch.diff')))
                if rc:
                    # fall back to patch(1)
                    rc, out = sh('cd %s && patch -p1 < %s' % (tmp, os.path.join(d, 'patch.diff')))
                if rc:
                    print(sid, 'apply failed', out[-300:])
                    continue
                envv['BACPYPES_SRC'] = dst
            try:
                for prop in props:
                    r = subprocess.run([os.path.join(VERIF, 'check'), prop, '--tier', tier], capture_output=True, text=True, env=envv, timeout=7200)
                    lines = [l.strip() for l in r.stdout.splitlines() if l.strip().startswith('clause=') or l.startswith('HARNESS')]
                    verdict = {0: 'MISSED', 1: 'CAUGHT'}.get(r.returncode, 'ERROR(%d)' % r.returncode)
                    if verdict == 'CAUGHT' and 'VIOLATION property=' not in r.stdout:
                        verdict = 'ERROR(exit 1 without a VIOLATION line)'
                    meta.setdefault('my_checks', {})[prop + ':' + tier + ('' if seed is None else ':seed%s' % seed)] = {'verdict': verdict, 'how': ('git -C /repo apply; ./check; git -C /repo checkout -- .' if in_repo else
                                                                           'scratch copy of /repo/py34 with the patch applied, BACPYPES_SRC=<copy> ./check %s --tier %s' % (prop, tier)),
                                                                  'first_violations': lines[:3], 'summary': r.stdout.strip().splitlines()[-1] if r.stdout.strip() else ''}
                    print('%-8s %-4s %-8s %s' % (sid, prop, verdict, (lines[0][:170] if lines else r.stdout.strip().splitlines()[-1][:170] if r.stdout.strip() else '')), flush=True)
                    if verdict != 'CAUGHT':
                        rcsum += 1
            finally:
                if in_repo:
                    sh('git -C /repo checkout -- .')
            json.dump(meta, open(os.path.join(d, 'meta.json'), 'w'), indent=1)
        finally:
            shutil.rmtree(tmp, ignore_errors=True)
    return rcsum


def do_table():
    print('| change | property | files | what it needs to manifest | quick check | caught as |')
    print('|---|---|---|---|---|---|')
    for sid in sorted(os.listdir(SEEDED)):
        p = os.path.join(SEEDED, sid, 'meta.json')
        if not os.path.exists(p):
            continue
        m = json.load(open(p))
        ck = m.get('my_checks', {})
        v = ck.get(m['property'] + ':quick', {})
        t = ck.get(m['property'] + ':thorough', {})
        verdict = v.get('verdict', '-') + (' / thorough: ' + t['verdict'] if t else '')
        first = (v.get('first_violations') or t.get('first_violations') or [''])[0]
        first = re.sub(r'\(minimised.*', '', first)[:140].replace('|', '/')
        print('| %s | %s | %s | %s | %s | %s |' % (sid, m['property'], ', '.join(os.path.basename(f) for f in m['files_changed']), m.get('needs_to_manifest', '')[:200].replace('|', '/'), verdict, first))


if __name__ == '__main__':
    cmd = sys.argv[1]
    if cmd == 'import':
        rc = 0
        for s in sys.argv[2:]:
            rc |= do_import(s)
        sys.exit(rc)
    elif cmd == 'run':
        args = sys.argv[2:]
        in_repo = '--in-repo' in args
        tier = 'thorough' if '--thorough' in args else 'quick'
        budget = None
        for a in args:
            if a.startswith('--budget='):
                budget = int(a.split('=')[1])
        seed = None
        for a in args:
            if a.startswith('--seed='):
                seed = int(a.split('=')[1])
        ids = [a for a in args if not a.startswith('--')]
        sys.exit(1 if do_run(ids, in_repo, tier, budget, seed=seed) else 0)
    elif cmd == 'table':
        do_table()
