#!/usr/bin/env python3
"""Regenerates /verif/MANIFEST.json from the table below (kept in one place so
the manifest stays valid and in sync with the checks that exist)."""

import json
import os
import sys

VERIF = os.path.dirname(os.path.dirname(os.path.abspath(__file__)))

NOT_APPLICABLE = {
    'C01': 'pure function of one value (encode/decode of a primitive): no clock, schedule, peer or fault can influence it; input sweeps are not simulation',
    'C02': 'tag-list framing is a pure function of an octet string / tag list: nothing to schedule or to fault',
    'C03': 'encode/decode of service PDUs and constructed types is a pure function of the value; the simulator only exercises the handful of services its scenarios use',
    'C07': 'APDU fixed-header packing and the two code tables are pure functions of their fields',
    'C08': 'NPDU header and network-message codecs are pure functions of their fields',
    'C09': 'BVLL frame layout and length field are pure functions of the message (the C13/C10 wire monitors decode every datagram they see with an independent decoder, but that is not a claim about C09)',
    'C18': 'address parsing/printing/equality/hashing is a pure function of the notation',
}

# id -> (category, technique, text, note, design section)
CLAIMED = {
    'C04': ('fault_enumeration',
            'deterministic simulation: complete single/double fault enumeration per cell + seeded multi-fault exploration, history oracle',
            'Every single fault (drop, duplicate, delay x4) at every frame and, for marked cells, every pair of faults over the transaction '
            'of each grid cell is executed against the real stack under a virtual clock; plus seeded exploration with hashed multi-fault '
            'plans, silence, crash/restart, stalls, clock steps, IOCB cancel/timeout, slow applications, unconfirmed traffic to the peer that owes an answer, follow-up requests '
            'submitted from inside outcome callbacks and many timers of mixed magnitude in the one scheduler. In-run invariants: the scheduler head is the earliest pending entry, no '
            'finished transaction sits in the scheduler at any outcome. Oracle: exactly one outcome per '
            'request, outcome within a bound computed from the configured timers, no transaction/timer/queue residue at quiescence, no '
            'client frame for the transaction after its outcome. Exhaustive over the enumerated placements only; the rest is sampling.',
            'Trusted: CPython, the harness decoders/attribution, one shared virtual clock for all nodes, the generous C04.b bound.',
            'DESIGN.md section 3 (C04)'),
    'C05': ('fault_enumeration',
            'deterministic simulation: complete length sweeps and single-fault enumeration + seeded multi-fault exploration; byte-exact payload oracle and independent wire-discipline monitor',
            'Fault-free transfer of every payload length 0..4*seg+2 per direction, every single fault (drop, duplicate x3, delay x3) at every frame '
            'of boundary-length transfers for window pairs, long payloads across the 8-bit sequence wrap (fault-free, and every single fault at the segments around the wrap), plus seeded multi-fault exploration '
            '(hashed plans, crash/restart mid-stream, stalls, reordering). Oracles: payload delivered to either application is octet-identical to '
            'what was submitted (else abort), every emitted segment carries the right slice / sequence number / more-follows and stays inside the '
            'window granted by the segment-acks delivered to the sender (independent decoder and encoder), any single fault is repaired and the '
            'transaction succeeds. Exhaustive over the enumerated placements only.',
            'Trusted: CPython, harness codecs, shared virtual clock; C05.c asserted only under protocol-sane timers (T_seg + 2*D_max < T_out, retries >= 1).',
            'DESIGN.md section 3 (C05)'),
    'C06': ('exploration',
            'deterministic simulation: seeded random tree internetworks with per-frame delays (reordering), population-model oracle, independent NPDU wire monitor; cyclic layouts for termination',
            'Seeded random tree internetworks (2-8 networks, real NSAP/NSE routers with 2-4 ports, some hosting a receive-only application, 1-3 full station stacks per network, stations with '
            'and without network-number knowledge, routers announcing or silent at start) carry every (source, kind, destination) packet combination on cold then '
            'warm caches, bursts within one instant and raw routed frames with hop counts 0..3/255, all under seeded per-frame delays so discovery and data overtake each other. '
            'Oracles: recipients equal the population model, each exactly once; the source shown names the originator and a reply to it reaches the originator once; '
            'each router emission matches a reception on another port with hop count minus one and the right SADR, nothing forwarded at hop count 0; small cyclic layouts with '
            'pre-loaded caches reach quiescence within 256 x routers frames; a lossy mode checks never-twice/never-wrong-station.',
            'Trusted: population model, harness NPDU decoder; exactly-once on loss-free fabric; cold-cache discovery on cyclic layouts out of scope (stated in DESIGN); router-hosted applications are receive-only.',
            'DESIGN.md section 3 (C06), 12.4'),
    'C10': ('fault_enumeration',
            'deterministic simulation with corruption faults: complete single-octet substitution / truncation / insertion enumeration per service frame + seeded same-batch interleavings; reply-count oracle with independent classifier',
            'A complete BACnet/IP device (real UDPMultiplexer/AnnexJ/BIPSimple/NSAP/SMAP/ASAP/application with read/write/RPM/COV/DCC/Who-Is services) runs on an '
            'in-memory datagram director that keeps the deferred hand-off of the real socket layer. Every single-octet substitution from a value set, every truncation '
            'and every insertion of one valid frame per service is injected in a fresh world, and seeded batches mix valid requests with garbage at the link, network '
            'and application layer in one loop batch; segmented conversations (answers of 8+ segments, right and odd segment-acks, duplicates, aborts, up to four requesters incl. two routed ones with equal MAC and invoke id) '
            'and timed DeviceCommunicationControl episodes; the device application remembers I-Am announcements. In-run invariant: a transaction sits in the scheduler at most once and never after it finished. Oracles: a datagram the harness\' own narrow classifier finds well framed gets exactly one reply with its invoke id; '
            'no transaction or transaction timer is left; valid requests queued with garbage are answered; two follow-up ReadProperty requests return the right values.',
            'Trusted: harness encoder/decoder and the narrow well-framed classifier; a segmented ack counts as one reply; accepted DeviceCommunicationControl legitimately silences the device.',
            'DESIGN.md section 3 (C10)'),
    'C11': ('exploration',
            'deterministic simulation: seeded exploration of overlapping transactions with fault injection and an adversary station; differential baseline',
            'Seeded runs of 1-40 overlapping requests over 1-4 slow servers (forced invoke-id collisions, 8-bit counter wrap with pinned live ids, two clients '
            'with equal ids, IOCB cancel, unconfirmed traffic to the owing peer) under hashed drop/dup/delay plans and a promiscuous adversary injecting foreign / wrong-id / replayed frames. '
            'Oracles: no two live requests of a stack share (peer, id); every ack carries its own request token and payload; an I/O control block is completed only by a PDU with its own invoke id; no stray confirmation; segment-acks only in the role of a transfer actually delivered; '
            'the same run without adversary frames has identical per-request outcomes; no re-indication while a server transaction is open.',
            'Trusted: harness attribution by (peer, invoke id, submit order); reuse of an id the client gave up on locally is a legal ambiguity and exempt.',
            'DESIGN.md section 3 (C11)'),
    'C12': ('exploration',
            'deterministic simulation: configuration swarm x boundary payload lengths, wire monitor with independent decoder against capabilities announced on the wire',
            'Each run draws independent capabilities for both sides (six max-APDU sizes x four segmentation values x max-segments x window 1..127), lets both '
            'announce I-Am and runs echo transactions (both stacks in both roles) with lengths on every resulting boundary; 20% of runs add drops/delays; identity-churn histories (other stations announce, devices move, addresses are taken over, re-announcements with smaller limits before a retry), stale-owner histories (the address of a silent requester was announced earlier by a replaced device with other capabilities), late I-Ams, transfers segmented in both directions with late segment-acks. The wire monitor checks every '
            'emitted APDU against the max-APDU / max-segments / segmented-response-accepted bits of the request being answered or the I-Am delivered before the '
            'transfer started, window ranges and negotiation, the window actually used by each sender, and that infeasible transfers end in an abort for the requester.',
            'Trusted: harness decoder and capability model; limits are taken from the wire; I-Am knowledge counts as of the start of a transfer.',
            'DESIGN.md section 3 (C12)'),
    'C13': ('exploration',
            'deterministic simulation: seeded BACnet/IP layouts on the in-memory datagram director, population model of the distribution tables + registration timeline model, independent BVLL decoder',
            'Seeded layouts of 1-5 IP subnets (repo IPRouter) with real BIPBBMD / BIPSimple / BIPForeign stacks over the real UDPMultiplexer, full or partial BDTs in one-hop and '
            'two-hop style, foreign devices with TTL 1-300 s; broadcasts from every kind of node at seeded instants (many on registration / TTL / grace edges), unregister / '
            're-register, Delete-FDT-Entry and Read-FDT by a raw host, per-datagram delays, foreign-device crash and loss of registrations/results. Oracles: every broadcast is handed '
            'to the network layer of exactly the nodes the tables connect, once, never to its originator, with the true originator as source; a foreign device is served from its '
            'ack for its TTL, not served nor listed after TTL+grace, renews in time, is not forwarded to after its entry was deleted or beyond the grace after it unregistered.',
            'Trusted: population/timeline models; 30 s grace band and +-1.5 s around every timeline edge accepted either way; must-reach clauses on fault-free runs only; loop stalls are not part of the quantifier.',
            'DESIGN.md section 3 (C13), 12.4'),
    'C15': ('exploration',
            'deterministic simulation: seeded read/write/RPM sequences from real client stacks over a faulty LAN; reference object store applied at each server-side indication (linearisation point) and compared with the emitted response',
            'A device stack with seeded objects (every registered standard object type in the enumerated type sweep; 2-6 objects from 14 classes with seeded writable subsets in the exploration) serves '
            'ReadProperty / WriteProperty / ReadPropertyMultiple sequences with values generated from each declared datatype, wrong-typed values, all array index classes, priorities, unknown objects '
            'and properties, selectors, under hashed drop/dup/delay plans and small APDU sizes. The reference store is applied at each request the serving application is indicated with, incl. '
            're-indications by retries and late duplicates, and the response emitted for it must be the expected value octets or a refusal code of the allowed set; all-or-nothing is checked '
            'by reading every modelled value back at the end.',
            'Trusted: the reference store and error-cause model; harness-side canonicalisation with the library encoder; computed and uninitialised properties are not value-modelled.',
            'DESIGN.md section 3 (C15)'),
    'C16': ('exploration',
            'deterministic simulation: seeded subscribe/renew/cancel/change timelines against a real COV device stack under the virtual clock; subscription/notification timeline monitor, notifications decoded from emitted frames by an independent decoder',
            'A device stack with analog (increment), binary, multi-state and pulse-converter objects serves seeded timelines from 1-3 real subscriber stacks: subscribe / renew / cancel with '
            'lifetimes 0..120 s or absent, confirmed or unconfirmed, local value and status-flag changes incl. sub-increment steps, returns and bursts in one instant, reads of '
            'Active_COV_Subscriptions, virtual time running past every expiry; modes strict, jitter, dead subscriber, lossy. The monitor requires for every subscription, in order: ack and '
            'initial notification, one notification per qualifying change of the requested kind with current values and remaining lifetime, nothing after cancel/expiry, re-subscription '
            'replacing lifetime and kind, and the active-subscriptions list equal to the live set.',
            'Trusted: the monitor; bursts may yield 1..(qualifying changes) notifications; an increment object is held by one subscription at a time; edge ties are not judged; relaxed clauses under delay/loss.',
            'DESIGN.md section 3 (C16)'),
    'C17': ('exploration',
            'deterministic simulation: seeded and enumerated command sequences against all 20 commandable classes, direct and over the wire, 16-slot reference model with slot-6 timer model under the virtual clock',
            'Every command sequence of bounded length over 4 priorities x 3 values x {write, relinquish} for each of the 20 *CmdObject classes (direct access), plus seeded sequences of up to 100 '
            'commands over all 16 priorities with invalid priorities, optional relinquish default / initial value, binary classes with minimum on/off times and virtual time advanced across '
            'the hold expiries, half through direct access and half through WriteProperty / ReadProperty of a real client stack over a LAN with drop/dup/delay plans (model applied at each '
            'server-side indication). After each command the present value and the whole priority array are read and compared with the reference model.',
            'Trusted: the reference model; priority 6 not commanded on binary objects with minimum times; DateTime objects always get a relinquish default; runs are cut at an exact tie between an operation and a hold expiry.',
            'DESIGN.md section 3 (C17)'),
    'C19': ('exploration',
            'deterministic simulation: enumerated + seeded operation histories on the real RouterInfoCache against a reference map; the same histories as real network-layer messages delivered in seeded order into a station stack, next hop observed on the wire',
            'Part (i): all operation sequences of bounded length and seeded sequences of up to 300 operations over {learn, forget router, forget destinations (of a router), renumber} on the real '
            'RouterInfoCache; after each operation every (source network, destination) lookup is compared with a reference map and every destination credited to a router must resolve to it. '
            'Part (ii): competing I-Am-Router-To-Network announcements from raw router nodes delivered in simulator-decided order (jitter up to 2 s), routed traffic revealing source networks, '
            'Network-Number-Is, public delete calls, into a complete station stack; after each step the station sends to every destination network and the next-hop MAC on the wire must be the '
            'router the reference map (which follows the delivery order) names, or a Who-Is-Router-To-Network when nothing is known.',
            'Trusted: the reference map; renumbering targets unused numbers; a run is not judged further after a public call raised; parked packets released later are not judged.',
            'DESIGN.md section 3 (C19)'),
    'C14': ('exploration',
            'deterministic simulation of the real scheduler under both real loop drivers (run_once stepped; run() with shimmed asyncore and in-memory trigger), reference-scheduler monitor',
            'Every history (enumerated short op sequences over 2-3 tasks with colliding times, every subset of raising members in deferred batches and same-instant '
            'task groups, the recurring interval x offset x epoch grid, and seeded histories of up to 200 ops with task bodies that install/suspend/defer, raising '
            'callbacks, loop stalls and clock steps) is executed by the real TaskManager under core.run_once and under core.run; a monitor replays the log of every '
            'API call and callback against a reference scheduler: order by (due, installation), never early, once per installation, nothing after suspend, '
            're-install moves, recurring slots within 2 us, deferred exactly once in submission order, nothing due or queued left behind when the loop goes idle.',
            'Trusted: the monitor; 2 us slot tolerance; bounded enumeration (length 3-4) shorter than the property text; suspend of a recurring task from inside its own callback is not generated (the scheduler re-installs it afterwards, which the statement allows as a re-install).',
            'DESIGN.md section 3 (C14)'),
}

CLAIMED['C20'] = ('exploration',
            'deterministic simulation: real schedule interpreter armed by the real scheduler under a virtual calendar clock over multi-day runs, sampled against an independent clause-12.24 interpreter',
            'A LocalScheduleObject inside an application whose LocalDeviceObject reads the virtual clock runs 3-40 virtual days from a seeded instant in 1990-2099 (biased to month ends, leap days, '
            'year ends) with seeded effective periods (open, entered, left during the run), weekly schedules, prioritised exceptions with date / range / week-n-day / calendar-reference periods and '
            'all pattern classes, loop stalls and mid-run schedule rewrites. At +-0.75 s around every configured time-value and midnight, at noon of every day and every minute of two sampled days '
            'the present value, the value eval() returns and the next-transition time it reports are compared with an independent interpreter; the interpreter task must stay armed, also outside '
            'the effective period.',
            'Trusted: the reference interpreter; ascending time-values and distinct exception priorities; no value asserted outside the effective period; no wall-clock steps; the exhaustive calendar sweep of the matchers is not claimed.',
            'DESIGN.md section 3 (C20)')

PLANNED = {k: 'check not built yet in this revision (deterministic-simulation check planned, DESIGN.md section 3); not claimed until it exists'
           for k in ['C05', 'C06', 'C10', 'C11', 'C12', 'C13', 'C14', 'C15', 'C16', 'C17', 'C19', 'C20'] if k not in CLAIMED}


def build():
    checks = []
    for pid in sorted(CLAIMED):
        cat, tech, text, note, ref = CLAIMED[pid]
        checks.append({
            'property_id': pid,
            'quick_cmd': './check %s --tier quick' % pid,
            'thorough_cmd': './check %s --tier thorough' % pid,
            'evidence_file': '/verif/evidence/%s.json' % pid,
            'replay_cmd_template': './check %s --replay {path}' % pid,
            'engine': 'bacsim',
            'level_claimed': {'category': cat, 'text': text, 'design_ref': ref},
            'level_note': note,
            'technique': tech,
        })
    na = [{'property_id': k, 'reason': v} for k, v in sorted(NOT_APPLICABLE.items())]
    for k, v in sorted(PLANNED.items()):
        na.append({'property_id': k, 'reason': v})
    return {
        'version': 1,
        'setup_cmd': './setup.sh',
        'hooks': {
            'guard': 'BACPYPES_VERIF',
            'enable': 'none needed: every seam (clock, scheduler time source, event-loop poll, wake-up trigger, LAN fabric, UDP director) '
                      'is taken over from outside by subclassing and module-attribute injection; no hook code exists in /repo',
            'baseline_off_cmd': 'cd /repo && PYTHONPATH=/repo/py34 /venv/bin/python -m pytest -ra -q -p no:cacheprovider --timeout=900 --continue-on-collection-errors',
            'source_commits': [],
            'add_only': True,
        },
        'engines': [{
            'name': 'bacsim',
            'path': '/verif/bacsim',
            'serves_properties': sorted(CLAIMED),
            'kind_free_text': 'deterministic discrete-event simulation of complete bacpypes stacks (real scheduler, real run_once/run loop, real '
                              'state machines) under a virtual clock and a seeded fault-injecting network fabric; history oracles and reference models; '
                              'delta-debugging minimiser; JSON replay files',
        }],
        'checks': checks,
        'not_applicable': na,
        'notes': 'Checks import bacpypes from /repo/py34 (the working tree), never from site-packages. Exit 0 held / 1 violation / 2 harness error. '
                 'VERIF_SEED selects the base seed, VERIF_BUDGET_S overrides the wall budget of the exploration tier, VERIF_WORKERS the process count.',
    }


if __name__ == '__main__':
    m = build()
    with open(os.path.join(VERIF, 'MANIFEST.json'), 'w') as f:
        json.dump(m, f, indent=1)
    print('wrote MANIFEST.json: %d checks, %d not_applicable' % (len(m['checks']), len(m['not_applicable'])))
