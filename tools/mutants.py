#!/usr/bin/env python3
"""
Sensitivity self-test: copy /repo/py34 to a scratch directory (outside /repo
and /verif), apply ONE catalogued property-breaking edit, run the property's
quick check against the copy (BACPYPES_SRC), expect exit 1, delete the copy.

usage: mutants.py [--prop C14] [--name substr] [--budget 20] [--keep-going]
Each catalogue entry: (property, name, file, old, new[, count]).
"""

import os
import sys
import shutil
import subprocess
import tempfile
import argparse
import json

VERIF = os.path.dirname(os.path.dirname(os.path.abspath(__file__)))
REPO_SRC = '/repo/py34'

CATALOGUE = [
    # ---- C14
    ('C14', 'no-tiebreak-counter', 'bacpypes/task.py', "heappush( self.tasks, (task.taskTime, next(self.counter), task) )",
     "heappush( self.tasks, (task.taskTime, -next(self.counter), task) )"),
    ('C14', 'strict-less-than-now', 'bacpypes/task.py', "            if when <= now:", "            if when < now:"),
    ('C14', 'no-heapify-after-delete', 'bacpypes/task.py', "                heapify(self.tasks)\n", "                pass\n"),
    ('C14', 'no-suspend-before-reinstall', 'bacpypes/task.py', "        if task.isScheduled:\n            self.suspend_task(task)\n\n        # save this in the task list",
     "        # save this in the task list"),
    ('C14', 'recurring-no-plus-interval', 'bacpypes/task.py', "self.taskTime = (now - offset) + interval - ((now - offset) % interval) + offset",
     "self.taskTime = (now - offset) - ((now - offset) % interval) + offset"),
    ('C14', 'deferred-lifo-run_once', 'bacpypes/core.py', "                for fn, args, kwargs in fnlist:\n                    if _debug: run_once._debug",
     "                for fn, args, kwargs in reversed(fnlist):\n                    if _debug: run_once._debug"),
    ('C14', 'deferred-lifo-run', 'bacpypes/core.py', "                for fn, args, kwargs in fnlist:\n#                   if _debug: run._debug",
     "                for fn, args, kwargs in reversed(fnlist):\n#                   if _debug: run._debug"),
    ('C14', 'fires-early', 'bacpypes/task.py', "        now = _time()\n\n        task = None", "        now = _time() + 0.05\n\n        task = None"),
    # ---- C04
    ('C04', 'no-stop-timer-in-set_state', 'bacpypes/appservice.py', "        # stop any current timer\n        self.stop_timer()\n", "        # stop any current timer\n"),
    ('C04', 'client-transaction-not-removed', 'bacpypes/appservice.py',
     "            if _debug: ClientSSM._debug(\"    - remove from active transactions\")\n            self.ssmSAP.clientTransactions.remove(self)",
     "            if _debug: ClientSSM._debug(\"    - remove from active transactions\")\n            pass"),
    ('C04', 'retry-count-never-incremented', 'bacpypes/appservice.py', "            self.retryCount += 1\n\n            # save the retry count", "            self.retryCount += 0\n\n            # save the retry count"),
    ('C04', 'double-abort-response', 'bacpypes/appservice.py',
     "            if _debug: ClientSSM._debug(\"    - retry count exceeded\")\n            abort = self.abort(AbortReason.noResponse)\n            self.response(abort)",
     "            if _debug: ClientSSM._debug(\"    - retry count exceeded\")\n            abort = self.abort(AbortReason.noResponse)\n            self.response(abort)\n            self.response(abort)"),
    ('C04', 'ioq-no-trigger-after-complete', 'bacpypes/iocb.py',
     "            _statelog.debug(\"%s %s %s\" % (_strftime(), self.name, \"idle\"))\n\n            # look for more to do\n            deferred(IOQController._trigger, self)\n\n    def abort_io",
     "            _statelog.debug(\"%s %s %s\" % (_strftime(), self.name, \"idle\"))\n\n    def abort_io"),
    ('C04', 'iocb-crosstalk-reintroduced', 'bacpypes/app.py', "                and (apdu.apduInvokeID != request.apduInvokeID):", "                and False:"),
    # ---- C05
    ('C05', 'segment-offset-plus-one', 'bacpypes/appservice.py', "        offset = indx * self.segmentSize\n", "        offset = indx * self.segmentSize + (1 if indx else 0)\n"),
    ('C05', 'seq-mod-255', 'bacpypes/appservice.py', "            segAPDU.apduSeq = indx % 256                       # sequence number",
     "            segAPDU.apduSeq = indx % 255                       # sequence number"),
    ('C05', 'more-follows-off-by-one', 'bacpypes/appservice.py', "            segAPDU.apduMor = (indx < (self.segmentCount - 1)) # more follows",
     "            segAPDU.apduMor = (indx < self.segmentCount) # more follows"),
    # ('in-window-le', `<` -> `<=`) was dropped: a correct receiver never acknowledges sequence number initial+window, the two
    # versions differ only for stale acks of an earlier identical exchange, where an abort is a legitimate outcome anyway
    ('C05', 'in-window-short', 'bacpypes/appservice.py', "        rslt = ((seqA - seqB + 256) % 256) < self.actualWindowSize", "        rslt = ((seqA - seqB + 256) % 256) < self.actualWindowSize - 1"),
    ('C05', 'client-accepts-out-of-order', 'bacpypes/appservice.py',
     "        # proper segment number\n        if apdu.apduSeq != (self.lastSequenceNumber + 1) % 256:\n            if _debug: ClientSSM._debug(",
     "        # proper segment number\n        if False and apdu.apduSeq != (self.lastSequenceNumber + 1) % 256:\n            if _debug: ClientSSM._debug("),
    ('C05', 'server-accepts-out-of-order', 'bacpypes/appservice.py',
     "        # proper segment number\n        if apdu.apduSeq != (self.lastSequenceNumber + 1) % 256:\n            if _debug: ServerSSM._debug(",
     "        # proper segment number\n        if False and apdu.apduSeq != (self.lastSequenceNumber + 1) % 256:\n            if _debug: ServerSSM._debug("),
    ('C05', 'fill-window-plus-one', 'bacpypes/appservice.py', "        for ix in range(self.actualWindowSize):", "        for ix in range(self.actualWindowSize + 1):"),
    ('C05', 'no-retransmit-on-request-timeout', 'bacpypes/appservice.py',
     "            if self.initialSequenceNumber == 0:\n                self.request(self.get_segment(0))\n            else:\n                self.fill_window(self.initialSequenceNumber)",
     "            pass"),
    ('C05', 'receiver-timer-x1-again', 'bacpypes/appservice.py', "        self.set_state(SEGMENTED_REQUEST, self.segmentTimeout * 4)", "        self.set_state(SEGMENTED_REQUEST, self.segmentTimeout)"),
    # ---- C11
    ('C11', 'reply-match-id-only', 'bacpypes/appservice.py',
     "            # find the client transaction this is acking\n            for tr in self.clientTransactions:\n                if (apdu.apduInvokeID == tr.invokeID) and (apdu.pduSource == tr.pdu_address):",
     "            # find the client transaction this is acking\n            for tr in self.clientTransactions:\n                if (apdu.apduInvokeID == tr.invokeID):"),
    ('C11', 'server-match-id-only', 'bacpypes/appservice.py',
     "            # find duplicates of this request\n            for tr in self.serverTransactions:\n                if (apdu.apduInvokeID == tr.invokeID) and (apdu.pduSource == tr.pdu_address):",
     "            # find duplicates of this request\n            for tr in self.serverTransactions:\n                if (apdu.apduInvokeID == tr.invokeID):"),
    ('C11', 'alloc-ignores-live', 'bacpypes/appservice.py',
     "            for tr in self.clientTransactions:\n                if (invokeID == tr.invokeID) and (addr == tr.pdu_address):\n                    break\n            else:\n                break",
     "            break"),
    ('C11', 'duplicate-delivered-to-app', 'bacpypes/appservice.py',
     "            if _debug: ServerSSM._debug(\"    - client is trying this request again\")\n",
     "            if _debug: ServerSSM._debug(\"    - client is trying this request again\")\n            self.request(apdu)\n"),
    ('C11', 'abort-match-id-only', 'bacpypes/appservice.py',
     "            if apdu.apduSrv:\n                for tr in self.clientTransactions:\n                    if (apdu.apduInvokeID == tr.invokeID) and (apdu.pduSource == tr.pdu_address):\n                        break\n                else:\n                    return\n\n                # send the packet on to the transaction\n                tr.confirmation(apdu)\n            else:\n                for tr in self.serverTransactions:\n                    if (apdu.apduInvokeID == tr.invokeID) and (apdu.pduSource == tr.pdu_address):\n                        break\n                else:\n                    return\n\n                # send the packet on to the transaction\n                tr.indication(apdu)\n\n        elif isinstance(apdu, SegmentAckPDU):",
     "            if apdu.apduSrv:\n                for tr in self.clientTransactions:\n                    if (apdu.apduInvokeID == tr.invokeID):\n                        break\n                else:\n                    return\n\n                # send the packet on to the transaction\n                tr.confirmation(apdu)\n            else:\n                for tr in self.serverTransactions:\n                    if (apdu.apduInvokeID == tr.invokeID):\n                        break\n                else:\n                    return\n\n                # send the packet on to the transaction\n                tr.indication(apdu)\n\n        elif isinstance(apdu, SegmentAckPDU):"),
    # ---- C06
    ('C06', 'global-broadcast-back-to-arrival-port', 'bacpypes/netservice.py',
     "            for xadapter in self.adapters.values():\n                if (xadapter is not adapter):\n                    xadapter.process_npdu(_deepcopy(newpdu))\n            return",
     "            for xadapter in self.adapters.values():\n                xadapter.process_npdu(_deepcopy(newpdu))\n            return"),
    ('C06', 'no-hop-decrement', 'bacpypes/netservice.py', "        newpdu.npduHopCount -= 1\n", "        newpdu.npduHopCount -= 0\n"),
    ('C06', 'hop-zero-still-forwarded', 'bacpypes/netservice.py', "        if (npdu.npduHopCount == 0):\n", "        if (npdu.npduHopCount < 0):\n"),
    ('C06', 'sadr-from-wrong-network', 'bacpypes/netservice.py', "            newpdu.npduSADR = RemoteStation( adapter.adapterNet, npdu.pduSource.addrAddr )",
     "            newpdu.npduSADR = RemoteStation( self.local_adapter.adapterNet, npdu.pduSource.addrAddr )"),
    ('C06', 'pending-resent-twice', 'bacpypes/netservice.py', "                    # send the packet downstream\n                    adapter.process_npdu(pending_npdu)\n",
     "                    # send the packet downstream\n                    adapter.process_npdu(pending_npdu)\n                    adapter.process_npdu(_deepcopy(pending_npdu))\n"),
    ('C06', 'pending-not-deleted', 'bacpypes/netservice.py', "                # delete the references\n                del sap.pending_nets[dnet]\n", "                # delete the references\n"),
    ('C06', 'remote-broadcast-local-test-wrong-adapter', 'bacpypes/netservice.py',
     "            processLocally = (npdu.npduDADR.addrNet == self.local_adapter.adapterNet)\n            forwardMessage = True",
     "            processLocally = (npdu.npduDADR.addrNet != adapter.adapterNet)\n            forwardMessage = True"),
    ('C06', 'unicast-also-processed-by-neighbours', 'bacpypes/netservice.py',
     "            processLocally = (npdu.npduDADR.addrNet == self.local_adapter.adapterNet) \\\n                and (npdu.npduDADR.addrAddr == self.local_adapter.adapterAddr.addrAddr)",
     "            processLocally = (npdu.npduDADR.addrNet == self.local_adapter.adapterNet)"),
    ('C12', 'devinfo-old-address-key-deleted-unconditionally', 'bacpypes/app.py',
     "            if (cache_address is not None) and (self.cache.get(cache_address) is device_info):\n                del self.cache[cache_address]",
     "            if (cache_address is not None) and (cache_address in self.cache):\n                del self.cache[cache_address]"),
    ('C12', 'retry-does-not-look-the-peer-up-again', 'bacpypes/appservice.py',
     "        if not self.device_info:\n            self.device_info = self.ssmSAP.deviceInfoCache.get_device_info(self.pdu_address)\n            if self.device_info:\n                self.ssmSAP.deviceInfoCache.acquire(self.device_info)",
     "        if False and not self.device_info:\n            self.device_info = self.ssmSAP.deviceInfoCache.get_device_info(self.pdu_address)\n            if self.device_info:\n                self.ssmSAP.deviceInfoCache.acquire(self.device_info)"),
    # ---- C13
    ('C13', 'bbmd-rebroadcasts-directed-broadcast', 'bacpypes/bvllservice.py',
     "            elif pdu.pduDestination.addrType == Address.localBroadcastAddr:\n                if _debug: BIPBBMD._debug(\"    - directed broadcast message\")\n",
     "            elif pdu.pduDestination.addrType == Address.localBroadcastAddr:\n                if _debug: BIPBBMD._debug(\"    - directed broadcast message\")\n                xpdu.pduDestination = LocalBroadcast()\n                self.request(xpdu)\n"),
    ('C13', 'distribute-back-to-registering-fd', 'bacpypes/bvllservice.py', "                if fdte.fdAddress != pdu.pduSource:\n", "                if True:\n", 2),
    ('C13', 'fdt-never-ages', 'bacpypes/bvllservice.py', "            fdte.fdRemain -= 1\n", "            fdte.fdRemain -= 0\n", 2),
    ('C13', 'fdt-no-grace', 'bacpypes/bvllservice.py', "        fdte.fdRemain = ttl + 5\n", "        fdte.fdRemain = ttl - 1\n", 2),
    ('C13', 'fd-renews-every-2ttl', 'bacpypes/bvllservice.py', "        # schedule the next registration renewal\n        self.install_task(delta=self.bbmdTimeToLive)",
     "        # schedule the next registration renewal\n        self.install_task(delta=self.bbmdTimeToLive * 2)"),
    ('C13', 'unregister-keeps-renewing', 'bacpypes/bvllservice.py',
     "        # clear the BBMD address and time-to-live\n        self.bbmdAddress = None\n        self.bbmdTimeToLive = None\n\n        # unschedule registration renewal & timeout tracking if previously\n        # scheduled\n        self.suspend_task()\n",
     "        # unschedule registration renewal & timeout tracking if previously\n        # scheduled\n"),
    ('C13', 'source-from-forwarding-bbmd', 'bacpypes/bvllservice.py',
     "            # build a PDU with the source from the real source\n            xpdu = PDU(pdu.pduData, source=pdu.bvlciAddress, destination=LocalBroadcast(), user_data=pdu.pduUserData)\n#           if route_aware:\n#               xpdu.pduSource.pduRoute = pdu.pduSource",
     "            # build a PDU with the source from the real source\n            xpdu = PDU(pdu.pduData, source=pdu.pduSource, destination=LocalBroadcast(), user_data=pdu.pduUserData)\n#           if route_aware:\n#               xpdu.pduSource.pduRoute = pdu.pduSource"),
    ('C13', 'delete-fdt-entry-noop', 'bacpypes/bvllservice.py', "            if addr == self.bbmdFDT[i].fdAddress:\n                del self.bbmdFDT[i]\n                break", "            if addr == self.bbmdFDT[i].fdAddress:\n                break", 2),
    ('C13', 'fd-reregister-broken-again', 'bacpypes/bvllservice.py', "        # no ack yet, this might follow a call to unregister()\n        self.registrationStatus = -1\n", ""),
    # ---- C15
    ('C15', 'assign-before-validate', 'bacpypes/object.py', "        if direct:\n            if _debug: Property._debug(\"    - direct write\")\n        else:",
     "        if not direct and arrayIndex is None:\n            obj._values[self.identifier] = value\n        if direct:\n            if _debug: Property._debug(\"    - direct write\")\n        else:"),
    ('C15', 'skip-mutability-check', 'bacpypes/object.py', "            if not self.mutable:\n                if _debug: Property._debug(\"    - property is immutable\")\n                raise ExecutionError(errorClass='property', errorCode='writeAccessDenied')",
     "            if False:\n                raise ExecutionError(errorClass='property', errorCode='writeAccessDenied')"),
    ('C15', 'array-element-off-by-one', 'bacpypes/constructeddata.py', "                raise IndexError(\"index out of range\")\n\n            return self.value[item]",
     "                raise IndexError(\"index out of range\")\n\n            return self.value[item - 1 if item > 1 else item]"),
    ('C15', 'array-index-n-plus-1-returns-array', 'bacpypes/object.py', "                except IndexError:\n                    raise ExecutionError(errorClass='property', errorCode='invalidArrayIndex')\n\n        # all set\n        return value",
     "                except IndexError:\n                    pass\n\n        # all set\n        return value"),
    ('C15', 'rpm-required-optional-swapped', 'bacpypes/service/object.py', "                            elif (propertyIdentifier == 'required') and (prop.optional):", "                            elif (propertyIdentifier == 'required') and (not prop.optional):"),
    ('C15', 'rpm-ignores-array-index', 'bacpypes/service/object.py', "    value = obj.ReadProperty(propertyIdentifier, propertyArrayIndex)\n    if _debug: read_property_to_any._debug",
     "    value = obj.ReadProperty(propertyIdentifier, None)\n    propertyArrayIndex = None\n    if _debug: read_property_to_any._debug"),
    ('C15', 'unknown-object-acked-on-write', 'bacpypes/service/object.py', "        if _debug: ReadWritePropertyServices._debug(\"    - object: %r\", obj)\n        if not obj:\n            raise ExecutionError(errorClass='object', errorCode='unknownObject')\n\n        try:\n            # check if the property exists",
     "        if _debug: ReadWritePropertyServices._debug(\"    - object: %r\", obj)\n        if not obj:\n            self.response(SimpleAckPDU(context=apdu))\n            return\n\n        try:\n            # check if the property exists"),
    ('C15', 'element-write-lost', 'bacpypes/constructeddata.py', "            else:\n                self.value[item] = value\n\n        def __delitem__", "            else:\n                pass\n\n        def __delitem__"),
    ('C15', 'wrong-error-code-readonly', 'bacpypes/object.py', "                raise ExecutionError(errorClass='property', errorCode='writeAccessDenied')\n\n            # if changing the length of the array",
     "                raise ExecutionError(errorClass='property', errorCode='valueOutOfRange')\n\n            # if changing the length of the array"),
    # ---- C17
    ('C17', 'highest-priority-skips-16', 'bacpypes/local/object.py', "            for i in range(1, 17):\n                priority_value = priority_array[i]", "            for i in range(1, 16):\n                priority_value = priority_array[i]"),
    ('C17', 'no-priority-means-15', 'bacpypes/local/object.py', "                if priority is None:\n                    priority = 16", "                if priority is None:\n                    priority = 15"),
    ('C17', 'relinquish-skips-recompute', 'bacpypes/local/object.py', "                        priority_value.null = value\n                        setattr(priority_value, _Commando._pv_choice, None)", "                        priority_value.null = value\n                        setattr(priority_value, _Commando._pv_choice, None)\n                        return"),
    ('C17', 'priority-17-accepted-as-16', 'bacpypes/local/object.py', "                    if (arrayIndex < 1) or (arrayIndex > 16):\n                        raise ExecutionError(\n                            errorClass=\"property\", errorCode=\"invalidArrayIndex\"\n                        )",
     "                    if arrayIndex > 16:\n                        arrayIndex = 16"),
    ('C17', 'min-times-swapped-again', 'bacpypes/local/object.py', "        if new_value == \"active\":\n            task_delay = getattr(self.binary_obj, \"minimumOnTime\") or 0", "        if new_value == \"inactive\":\n            task_delay = getattr(self.binary_obj, \"minimumOnTime\") or 0"),
    ('C17', 'min-timer-never-releases', 'bacpypes/local/object.py', "        # clear the value at priority 6\n        self.binary_obj.WriteProperty(\"presentValue\", (), priority=6)", "        # clear the value at priority 6\n        pass"),
    ('C17', 'unchanged-value-skips-slot-update', 'bacpypes/local/object.py', "            # update the priority array entry\n            if property == priorityArray:\n                if arrayIndex is None:",
     "            # update the priority array entry\n            if property == priorityArray and arrayIndex is not None and value != () and value == getattr(self, presentValue):\n                return\n            if property == priorityArray:\n                if arrayIndex is None:"),
    ('C17', 'default-present-value-assigned-after-mixins', 'bacpypes/local/object.py',
     "                kwargs[presentValue] = kwargs.get(relinquishDefault, default_value)\n\n            super(_Commando, self).__init__(**kwargs)\n",
     "                pass\n\n            super(_Commando, self).__init__(**kwargs)\n            if presentValue not in kwargs:\n                setattr(self, presentValue, kwargs.get(relinquishDefault, default_value))\n"),
    # ---- C19
    ('C19', 'displaced-router-keeps-dnet', 'bacpypes/netservice.py', "                    if dnet in router_info.dnets:\n                        del router_info.dnets[dnet]\n                        del self.path_info[(snet, dnet)]\n                        if _debug: RouterInfoCache._debug(\"    - del path: %r -> %r via %r\", snet, dnet, router_info.address)\n                if not router_info.dnets:\n                    del self.routers[snet][router_info.address]\n                    if _debug: RouterInfoCache._debug(\"    - no dnets: %r via %r\", snet, router_info.address)\n\n        # update current router info if there is one",
     "                    if dnet in router_info.dnets:\n                        del self.path_info[(snet, dnet)]\n                if not router_info.dnets:\n                    del self.routers[snet][router_info.address]\n\n        # update current router info if there is one"),
    ('C19', 'keeps-older-announcement', 'bacpypes/netservice.py', "        for dnet in dnets:\n            other_router = self.path_info.get((snet, dnet), None)\n            if other_router and (other_router is not existing_router_info):\n                other_routers.add(other_router)\n\n        # remove the dnets from other router(s) and paths\n        if other_routers:",
     "        for dnet in list(dnets):\n            other_router = self.path_info.get((snet, dnet), None)\n            if other_router and (other_router is not existing_router_info):\n                dnets.remove(dnet)\n\n        # remove the dnets from other router(s) and paths\n        if other_routers:"),
    ('C19', 'renumber-leaves-path-info', 'bacpypes/netservice.py', "                self.path_info[(new_snet, dnet)] = self.path_info.pop((old_snet, dnet))", "                pass"),
    ('C19', 'delete-leaves-path-info', 'bacpypes/netservice.py', "                    if dnet in router_info.dnets:\n                        del router_info.dnets[dnet]\n                        del self.path_info[(snet, dnet)]\n                        if _debug: RouterInfoCache._debug(\"    - del path: %r -> %r via %r\", snet, dnet, router_info.address)\n                if not router_info.dnets:\n                    del self.routers[snet][address]",
     "                    if dnet in router_info.dnets:\n                        del router_info.dnets[dnet]\n                if not router_info.dnets:\n                    del self.routers[snet][address]"),
    ('C19', 'sadr-learning-disabled', 'bacpypes/netservice.py', "            # pass this new path along to the cache\n            self.router_info_cache.update_router_info(adapter.adapterNet, npdu.pduSource, [snet])", "            # pass this new path along to the cache\n            pass"),
    ('C19', 'pending-check-first-again', 'bacpypes/netservice.py', "        if (not router_info) and (dnet in self.pending_nets):", "        if (dnet in self.pending_nets):"),
    # ---- C16
    ('C16', 'increment-filter-strict-gt', 'bacpypes/service/cov.py', "        value_changed = (new_value <= (self.previous_reported_value - self.obj.covIncrement)) \\\n            or (new_value >= (self.previous_reported_value + self.obj.covIncrement))",
     "        value_changed = (new_value < (self.previous_reported_value - self.obj.covIncrement)) \\\n            or (new_value > (self.previous_reported_value + self.obj.covIncrement))"),
    ('C16', 'previous-reported-not-updated', 'bacpypes/service/cov.py', "        # when sending out notifications, keep the current value\n        self.previous_reported_value = self.presentValue", "        # when sending out notifications, keep the current value\n        pass"),
    # (equivalent, not listed: leaving the expiry task installed on cancel only produces a swallowed exception at expiry)
    ('C16', 'cancel-keeps-subscription', 'bacpypes/service/cov.py', "            if cancel_subscription:\n                if _debug: ChangeOfValueServices._debug(\"    - cancel the subscription\")\n                self.cancel_subscription(cov)", "            if cancel_subscription:\n                pass", 2),
    ('C16', 'time-remaining-from-lifetime', 'bacpypes/service/cov.py', "                time_remaining = int(cov.taskTime - current_time)\n\n                # make sure it is at least one second\n                if not time_remaining:\n                    time_remaining = 1\n\n            # build a request with the correct type",
     "                time_remaining = int(cov.lifetime)\n\n            # build a request with the correct type"),
    ('C16', 'renew-keeps-old-lifetime-again', 'bacpypes/service/cov.py', "        # the new lifetime replaces the old one\n        self.lifetime = lifetime or 0\n", "        lifetime = lifetime or 0\n"),
    ('C16', 'no-initial-notification', 'bacpypes/service/cov.py', "        if not cancel_subscription:\n            if _debug: ChangeOfValueServices._debug(\"    - send a notification\")\n            deferred(cov_detection.send_cov_notifications, cov)", "        if False:\n            pass", 2),
    ('C16', 'status-flags-not-tracked', 'bacpypes/service/cov.py', "class GenericCriteria(COVDetection):\n\n    properties_tracked = (\n        'presentValue',\n        'statusFlags',\n        )", "class GenericCriteria(COVDetection):\n\n    properties_tracked = (\n        'presentValue',\n        )"),
    ('C16', 'active-list-skips-indefinite', 'bacpypes/service/cov.py', "        for cov in obj._app.subscriptions():\n            # calculate time remaining\n            if not cov.lifetime:\n                time_remaining = 0", "        for cov in obj._app.subscriptions():\n            # calculate time remaining\n            if not cov.lifetime:\n                continue"),
    # ---- C20
    ('C20', 'exception-tval-strictly-less', 'bacpypes/local/schedule.py', "                    tval = time_value.time\n                    if tval <= etime:\n                        if isinstance(time_value.value, Null):", "                    tval = time_value.time\n                    if tval < etime:\n                        if isinstance(time_value.value, Null):"),
    ('C20', 'weekly-tval-strictly-less', 'bacpypes/local/schedule.py', "                tval = time_value.time\n                if tval <= etime:\n                    if isinstance(time_value.value, Null):", "                tval = time_value.time\n                if tval < etime:\n                    if isinstance(time_value.value, Null):"),
    ('C20', 'weekly-index-off-by-one', 'bacpypes/local/schedule.py', "            daily_schedule = sched_obj.weeklySchedule[edate[3]]", "            daily_schedule = sched_obj.weeklySchedule[edate[3] % 7 + 1]"),
    ('C20', 'exception-priority-reversed', 'bacpypes/local/schedule.py', "        for priority_value, next_transition in zip(event_priority, next_transition_time):", "        for priority_value, next_transition in reversed(list(zip(event_priority, next_transition_time))):"),
    ('C20', 'last-day-is-30', 'bacpypes/local/schedule.py', "        # last day of the month\n        last_day = calendar.monthrange(year + 1900, month)[1]\n        if day != last_day:", "        # last day of the month\n        last_day = 30\n        if day != last_day:"),
    ('C20', 'odd-even-month-swapped', 'bacpypes/local/schedule.py', "        # odd months\n        if (month % 2) == 0:\n            return False\n    elif month_p == 14:\n        # even months\n        if (month % 2) == 1:\n            return False",
     "        # odd months\n        if (month % 2) == 1:\n            return False\n    elif month_p == 14:\n        # even months\n        if (month % 2) == 0:\n            return False", 2),
    ('C20', 'weekly-transition-ignored-when-exception-active', 'bacpypes/local/schedule.py', "                else:\n                    earliest_transition = min(earliest_transition, tval)\n                    break\n\n        # return what was matched, if anything", "                else:\n                    break\n\n        # return what was matched, if anything"),
    ('C20', 'week-of-month-5-off', 'bacpypes/local/schedule.py', "        if (day < 29) or (day > 31):", "        if (day < 28) or (day > 31):"),
    ('C20', 'midnight-not-rearmed', 'bacpypes/local/schedule.py', "            # not in the effective period, look again when the day is over\n            if _debug: LocalScheduleInterpreter._debug(\"    - not in effective period\")\n            next_transition = (24, 0, 0, 0)", "            return"),
    ('C20', 'null-weekly-entry-keeps-previous', 'bacpypes/local/schedule.py', "                    if isinstance(time_value.value, Null):\n                        if _debug: LocalScheduleInterpreter._debug(\"    - back to normal @ %r\", tval)\n                        daily_value = sched_obj.scheduleDefault", "                    if isinstance(time_value.value, Null):\n                        pass"),
    # ---- C12
    ('C12', 'window-max-instead-of-min', 'bacpypes/appservice.py', "        self.actualWindowSize = min(apdu.apduWin, self.ssmSAP.proposedWindowSize)\n        if _debug: ServerSSM._debug(",
     "        self.actualWindowSize = max(apdu.apduWin, self.ssmSAP.proposedWindowSize)\n        if _debug: ServerSSM._debug("),
    ('C12', 'ignore-segmented-response-accepted', 'bacpypes/appservice.py', "                if not self.segmented_response_accepted:", "                if False:"),
    ('C12', 'max-segments-off-by-one', 'bacpypes/appservice.py',
     "                if (self.maxSegmentsAccepted is not None) and (self.segmentCount > self.maxSegmentsAccepted):",
     "                if (self.maxSegmentsAccepted is not None) and (self.segmentCount > self.maxSegmentsAccepted + 1):"),
    ('C12', 'segment-size-from-local-limit', 'bacpypes/appservice.py',
     "        elif self.device_info.maxNpduLength is None:\n            self.segmentSize = self.device_info.maxApduLengthAccepted",
     "        elif self.device_info.maxNpduLength is None:\n            self.segmentSize = self.maxApduLengthAccepted"),
    ('C12', 'header-room-forgotten-again', 'bacpypes/appservice.py', "                self.segmentSize -= 5\n", "                pass\n"),
]


# semantics-preserving edits: every listed quick check must stay at exit 0 (no alarm on code where the property holds)
NEUTRAL = [
    ('C14,C04,C16', 'rename-local-in-get_next_task', 'bacpypes/task.py',
     "            when, n, nxttask = self.tasks[0]\n            if when <= now:", "            due, n, nxttask = self.tasks[0]\n            when = due\n            if due <= now:"),
    ('C04,C05,C11,C12', 'swap-independent-statements-client-indication', 'bacpypes/appservice.py',
     "            self.sentAllSegments = True\n            self.retryCount = 0\n            self.set_state(AWAIT_CONFIRMATION, self.apduTimeout)", "            self.retryCount = 0\n            self.sentAllSegments = True\n            self.set_state(AWAIT_CONFIRMATION, self.apduTimeout)"),
    ('C04,C05,C10,C11,C12,C15,C16', 'different-legal-smap-defaults', 'bacpypes/appservice.py',
     "        self.segmentTimeout = 1500\n        self.maxSegmentsAccepted = 2\n        self.proposedWindowSize = 2", "        self.segmentTimeout = 2000\n        self.maxSegmentsAccepted = 4\n        self.proposedWindowSize = 3"),
    ('C04,C05,C06,C13,C19', 'vlan-iterate-over-copy', 'bacpypes/vlan.py',
     "            for node in self.nodes:\n                if (pdu.pduSource != node.address):", "            for node in list(self.nodes):\n                if (pdu.pduSource != node.address):"),
    ('C06,C19', 'netservice-reorder-flag-assignments', 'bacpypes/netservice.py',
     "            processLocally = (adapter is self.local_adapter) or (npdu.npduNetMessage is not None)\n            forwardMessage = False", "            forwardMessage = False\n            processLocally = (npdu.npduNetMessage is not None) or (adapter is self.local_adapter)"),
    ('C16', 'cov-rename-local', 'bacpypes/service/cov.py',
     "                time_remaining = int(cov.taskTime - current_time)\n\n                # make sure it is at least one second\n                if not time_remaining:\n                    time_remaining = 1\n\n            # build a request with the correct type",
     "                seconds_left = int(cov.taskTime - current_time)\n                time_remaining = seconds_left if seconds_left else 1\n\n            # build a request with the correct type"),
    ('C14,C10', 'deferred-list-to-deque', 'bacpypes/core.py',
     "                for fn, args, kwargs in fnlist:\n                    if _debug: run_once._debug", "                from collections import deque as _dq\n                fnlist = _dq(fnlist)\n                for fn, args, kwargs in fnlist:\n                    if _debug: run_once._debug"),
    ('C17', 'commandable-loop-as-while', 'bacpypes/local/object.py',
     "            for i in range(1, 17):\n                priority_value = priority_array[i]", "            for i in (1, 2, 3, 4, 5, 6, 7, 8, 9, 10, 11, 12, 13, 14, 15, 16):\n                priority_value = priority_array[i]"),
    ('C20', 'schedule-equivalent-last-day', 'bacpypes/local/schedule.py',
     "        # last day of the month\n        last_day = calendar.monthrange(year + 1900, month)[1]\n        if day != last_day:", "        # last day of the month\n        last_day = max(calendar.monthcalendar(year + 1900, month)[-1])\n        if day != last_day:"),
    ('C13', 'bbmd-age-loop-forward-copy', 'bacpypes/bvllservice.py',
     "        for i in range(len(self.bbmdFDT)-1, -1, -1):\n            fdte = self.bbmdFDT[i]\n            fdte.fdRemain -= 1\n\n            # delete it if it expired\n            if fdte.fdRemain <= 0:\n                if _debug: BIPBBMD._debug(\"foreign device expired: %r\", fdte.fdAddress)\n                del self.bbmdFDT[i]",
     "        for fdte in list(self.bbmdFDT):\n            fdte.fdRemain -= 1\n\n            # delete it if it expired\n            if fdte.fdRemain <= 0:\n                self.bbmdFDT.remove(fdte)"),
    ('C14,C04,C13', 'suspend-task-pop-instead-of-del', 'bacpypes/task.py', "                del self.tasks[i]\n", "                self.tasks.pop(i)\n"),
    ('C15', 'add-property-dict-copy', 'bacpypes/object.py',
     "        # make a copy of the properties dictionary\n        self._properties = _copy(self._properties)\n\n        # save the property reference and default value (usually None)",
     "        # make a copy of the properties dictionary\n        self._properties = dict(self._properties)\n\n        # save the property reference and default value (usually None)"),
    ('C05,C12', 'in-window-plain-modulo', 'bacpypes/appservice.py', "        rslt = ((seqA - seqB + 256) % 256) < self.actualWindowSize", "        rslt = ((seqA - seqB) % 256) < self.actualWindowSize"),
    ('C15', 'readproperty-reorder-lookups', 'bacpypes/service/object.py',
     "            # get the datatype\n            datatype = obj.get_datatype(apdu.propertyIdentifier)\n            if _debug: ReadWritePropertyServices._debug(\"    - datatype: %r\", datatype)\n\n            # get the value\n            value = obj.ReadProperty(apdu.propertyIdentifier, apdu.propertyArrayIndex)",
     "            # get the value\n            value = obj.ReadProperty(apdu.propertyIdentifier, apdu.propertyArrayIndex)\n\n            # get the datatype\n            datatype = obj.get_datatype(apdu.propertyIdentifier)"),
]


def run_neutral(entry, budget):
    props, name, rel, old, new = entry[:5]
    count = entry[5] if len(entry) > 5 else 1
    tmp = tempfile.mkdtemp(prefix='bacneu_', dir='/tmp')
    res = []
    try:
        dst = os.path.join(tmp, 'py34')
        shutil.copytree(REPO_SRC, dst, ignore=shutil.ignore_patterns('__pycache__'))
        p = os.path.join(dst, rel)
        s = open(p).read()
        if s.count(old) != count:
            return [('-', 'STALE(%d matches)' % s.count(old))]
        open(p, 'w').write(s.replace(old, new))
        for prop in props.split(','):
            envv = dict(os.environ)
            envv.update({'BACPYPES_SRC': dst, 'VERIF_BUDGET_S': str(budget), 'VERIF_EVIDENCE_DIR': os.path.join(tmp, 'evidence'), 'VERIF_REPLAY_DIR': os.path.join(tmp, 'replays')})
            r = subprocess.run([os.path.join(VERIF, 'check'), prop, '--tier', 'quick'], capture_output=True, text=True, env=envv, timeout=1800)
            res.append((prop, 'QUIET' if r.returncode == 0 else 'ALARM(exit %d): %s' % (r.returncode, ' | '.join(l for l in r.stdout.splitlines() if 'clause=' in l or 'HARNESS' in l)[:300])))
        return res
    finally:
        shutil.rmtree(tmp, ignore_errors=True)


def run_one(entry, budget, verbose=False):
    prop, name, rel, old, new = entry[:5]
    count = entry[5] if len(entry) > 5 else 1
    tmp = tempfile.mkdtemp(prefix='bacmut_', dir='/tmp')
    try:
        dst = os.path.join(tmp, 'py34')
        shutil.copytree(REPO_SRC, dst, ignore=shutil.ignore_patterns('__pycache__'))
        p = os.path.join(dst, rel)
        s = open(p).read()
        if s.count(old) != count:
            return 'STALE(%d matches)' % s.count(old), ''
        open(p, 'w').write(s.replace(old, new))
        envv = dict(os.environ)
        envv['BACPYPES_SRC'] = dst
        envv['VERIF_BUDGET_S'] = str(budget)
        envv['VERIF_MINIMISE_S'] = '20'
        envv['VERIF_EVIDENCE_DIR'] = os.path.join(tmp, 'evidence')
        envv['VERIF_REPLAY_DIR'] = os.path.join(tmp, 'replays')
        r = subprocess.run([os.path.join(VERIF, 'check'), prop, '--tier', 'quick'], capture_output=True, text=True, env=envv, timeout=1200)
        lines = [l for l in r.stdout.splitlines() if l.startswith('VIOLATION') or l.startswith('  clause') or l.startswith('HARNESS')]
        if r.returncode == 1 and any(l.startswith('VIOLATION') for l in lines):
            return 'CAUGHT', '\n'.join(lines[:4])
        if r.returncode == 0:
            return 'MISSED', r.stdout[-300:]
        return 'ERROR(%d)' % r.returncode, (r.stdout + r.stderr)[-600:]
    finally:
        shutil.rmtree(tmp, ignore_errors=True)


def main():
    ap = argparse.ArgumentParser()
    ap.add_argument('--prop')
    ap.add_argument('--name')
    ap.add_argument('--budget', type=int, default=20)
    ap.add_argument('-v', action='store_true')
    ap.add_argument('--neutral', action='store_true', help='run the semantics-preserving edits instead: every check must stay quiet')
    a = ap.parse_args()
    if a.neutral:
        allq = True
        out = []
        for e in NEUTRAL:
            if a.name and a.name not in e[1]:
                continue
            for prop, st in run_neutral(e, a.budget):
                print('%-45s %-5s %s' % (e[1], prop, st), flush=True)
                out.append((e[1], prop, st))
                allq = allq and st == 'QUIET'
        with open(os.path.join(VERIF, 'tools', 'neutral_last.json'), 'w') as f:
            json.dump(out, f, indent=1)
        return 0 if allq else 1
    res = []
    for e in CATALOGUE:
        if a.prop and e[0] != a.prop:
            continue
        if a.name and a.name not in e[1]:
            continue
        st, info = run_one(e, a.budget)
        print('%-6s %-40s %s' % (e[0], e[1], st), flush=True)
        if a.v or st not in ('CAUGHT',):
            print('    ' + info.replace('\n', '\n    '))
        elif info:
            print('    ' + info.splitlines()[1].strip()[:200] if len(info.splitlines()) > 1 else '')
        res.append((e[0], e[1], st))
    with open(os.path.join(VERIF, 'tools', 'mutants_last.json'), 'w') as f:
        json.dump(res, f, indent=1)
    return 0 if all(r[2] == 'CAUGHT' for r in res) else 1


if __name__ == '__main__':
    sys.exit(main())
