#!/usr/bin/env python3
"""
Determinism self-test (DESIGN 2.7): for every claimed property, N run
descriptions are executed
  (a) twice in one process (second time in reversed order),
  (b) in a fresh interpreter under another PYTHONHASHSEED,
  (c) sharded over 1 worker and over 16 worker processes,
and all event-log digests must be identical.  Exit 0 iff no divergence.

usage: determinism.py [--n 40] [--props C04,C05] [--seed 0]
"""

import os
import sys
import json
import argparse
import importlib
import subprocess
import multiprocessing
from concurrent.futures import ProcessPoolExecutor

VERIF = os.path.dirname(os.path.dirname(os.path.abspath(__file__)))
SRC = os.environ.get('BACPYPES_SRC', '/repo/py34')
PROPS = ['C04', 'C05', 'C06', 'C10', 'C11', 'C12', 'C13', 'C14', 'C15', 'C16', 'C17', 'C19', 'C20']

GEN = {
    'C04': ['gen_desc'], 'C05': ['gen_desc', 'gen_single_fault_desc'], 'C06': ['gen_desc', 'gen_cyclic', 'gen_lossy'], 'C10': ['gen_batch', 'gen_conv', 'gen_dcc'],
    'C11': ['gen_desc'], 'C12': ['gen_desc'], 'C13': ['gen_desc'], 'C14': ['gen_desc'], 'C15': ['gen_desc'], 'C16': ['gen_desc'],
    'C17': ['gen_desc'], 'C19': ['gen_cache_desc', 'gen_msg_desc'], 'C20': ['gen_desc'],
}


def descs_for(prop, n, seed):
    mod = importlib.import_module('bacsim.props.' + prop.lower())
    out = []
    gens = GEN[prop]
    for i in range(n):
        g = getattr(mod, gens[i % len(gens)])
        out.append(g(seed, 900000 + i))
    return out


def digests(args):
    prop, descs = args
    mod = importlib.import_module('bacsim.props.' + prop.lower())
    out = []
    for d in descs:
        if d.get('lossy') and hasattr(mod, 'execute'):
            ex = mod.execute(d)
            out.append(ex['w'].digest())
        else:
            out.append(mod.execute_desc(d)['digest'])
    return out


def child_main():
    prop = sys.argv[2]
    descs = json.load(sys.stdin)
    print(json.dumps(digests((prop, descs))))


def main():
    ap = argparse.ArgumentParser()
    ap.add_argument('--n', type=int, default=40)
    ap.add_argument('--props', default=','.join(PROPS))
    ap.add_argument('--seed', type=int, default=0)
    a = ap.parse_args()
    sys.path.insert(0, VERIF)
    from bacsim.driver import jsonable
    bad = 0
    report = {}
    ctx = multiprocessing.get_context('fork')
    for prop in a.props.split(','):
        descs = json.loads(json.dumps(jsonable(descs_for(prop, a.n, a.seed))))
        base = digests((prop, descs))
        rev = list(reversed(digests((prop, list(reversed(descs))))))
        envv = dict(os.environ)
        envv['PYTHONHASHSEED'] = '12345'
        envv['PYTHONPATH'] = VERIF + ':' + SRC
        p = subprocess.run([sys.executable, '-B', os.path.abspath(__file__), '--child', prop], input=json.dumps(descs), capture_output=True, text=True, env=envv, timeout=3000)
        if p.returncode != 0:
            print(prop, 'CHILD FAILED', p.stderr[-1500:])
            bad += 1
            continue
        fresh = json.loads(p.stdout.strip().splitlines()[-1])
        with ProcessPoolExecutor(max_workers=16, mp_context=ctx) as pool:
            chunks = [descs[i::16] for i in range(16)]
            res = list(pool.map(digests, [(prop, c) for c in chunks]))
        sharded = [None] * len(descs)
        for i, c in enumerate(res):
            for j, dg in enumerate(c):
                sharded[i + 16 * j] = dg
        ok = (base == rev == fresh == sharded)
        ndiff = sum(1 for i in range(len(base)) if not (base[i] == rev[i] == fresh[i] == sharded[i]))
        report[prop] = {'runs': len(descs), 'same_process_reversed': base == rev, 'fresh_interpreter_hashseed_12345': base == fresh, 'sharded_16_workers': base == sharded,
                        'distinct_digests': len(set(base))}
        print('%s runs=%d distinct=%d reversed=%s fresh/hashseed=%s 16-workers=%s %s' % (prop, len(descs), len(set(base)), base == rev, base == fresh, base == sharded,
                                                                                          'OK' if ok else 'DIVERGED(%d)' % ndiff), flush=True)
        if not ok:
            bad += 1
    with open(os.path.join(VERIF, 'tools', 'determinism_last.json'), 'w') as f:
        json.dump(report, f, indent=1, sort_keys=True)
    return 1 if bad else 0


if __name__ == '__main__':
    if len(sys.argv) > 1 and sys.argv[1] == '--child':
        sys.path.insert(0, VERIF)
        child_main()
    else:
        os.environ.setdefault('PYTHONHASHSEED', '0')
        sys.exit(main())
